#!/bin/bash
# usage: tools/sweep.sh <tier> <seeds...> ; runs every claimed check, prints one line per run, lists non-zero exits at the end
tier=$1; shift
fail=0
for s in "$@"; do
  for p in C01 C02 C03 C04 C05 C06 C07 C08 C09 C10 C11 C12 C13 C14 C15 C16 C17 C18 C19 C20; do
    out=$(VERIF_SEED=$s ./check $p --tier $tier 2>&1); rc=$?
    echo "seed=$s $p rc=$rc :: $(echo "$out" | tail -1)"
    if [ $rc -ne 0 ]; then fail=1; echo "$out" | grep -E "VIOLATION|INCONCLUSIVE|key=" | head -8; fi
  done
done
echo "SWEEP-DONE fail=$fail"
