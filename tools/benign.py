#!/usr/bin/env python3
"""Run the checks against semantics-preserving changes (kept under /verif/benign/<id>/patch.diff) in a scratch
worktree of /repo (never in /repo itself): every check must stay silent (exit 0, or 2 = inconclusive) on each.
usage: benign.py [--all-checks] [ids...]"""
import json
import os
import subprocess
import sys
import time

VERIF = os.path.dirname(os.path.dirname(os.path.abspath(__file__)))
BEN = os.path.join(VERIF, "benign")
WT = "/tmp/verif-benign-wt"
AREA_CHECKS = {
    "A1": ["C13", "C14", "C15", "C19", "C20"],
    "A2": ["C01", "C11", "C12", "C16", "C19", "C10"],
    "A3": ["C01", "C02", "C03", "C06", "C10", "C11", "C14", "C13"],
    "A4": ["C07", "C08", "C18"],
    "A5": ["C07", "C09", "C18"],
    "A6": ["C04", "C05", "C17", "C06"],
    "A7": ["C15", "C16", "C12", "C01"],
    "A8": ["C18", "C03", "C11", "C07", "C13"],
    # second round: structurally bold rewrites
    "B1": ["C13", "C14", "C15", "C19", "C20"],
    "B2": ["C01", "C10", "C11", "C12", "C19"],
    "B3": ["C01", "C02", "C03", "C06", "C10", "C13", "C14"],
    "B4": ["C07", "C08", "C18"],
    "B5": ["C07", "C09", "C18"],
    "B6": ["C04", "C05", "C17", "C06", "C02"],
    "B7": ["C15", "C16", "C12", "C01"],
    "B8": ["C01", "C02", "C03", "C06", "C10", "C11", "C12", "C15"],
}
ALL = ["C%02d" % i for i in range(1, 21)]


def sh(*a, **k):
    return subprocess.run(a, stdout=subprocess.PIPE, stderr=subprocess.STDOUT, text=True, errors="replace", **k)


def main():
    args = [a for a in sys.argv[1:] if not a.startswith("--")]
    allc = "--all-checks" in sys.argv
    ids = args or sorted(d for d in os.listdir(BEN) if os.path.isdir(os.path.join(BEN, d)))
    sh("git", "-C", "/repo", "worktree", "remove", "--force", WT)
    sh("git", "-C", "/repo", "worktree", "prune")
    r = sh("git", "-C", "/repo", "worktree", "add", "--detach", WT, "HEAD")
    if r.returncode != 0:
        print(r.stdout)
        return 2
    resfile = os.path.join(BEN, "results.json")
    results = json.load(open(resfile)) if os.path.exists(resfile) else {}
    try:
        for bid in ids:
            d = os.path.join(BEN, bid)
            sh("git", "-C", WT, "checkout", "--", ".")
            r = sh("git", "-C", WT, "apply", os.path.join(d, "patch.diff"))
            if r.returncode != 0:
                print(bid, "patch does not apply:", r.stdout[-300:])
                results[bid] = dict(error="patch does not apply")
                continue
            checks = ALL if allc else AREA_CHECKS.get(bid.split("-")[0], ALL)
            out = {}
            for c in checks:
                t = time.time()
                env = dict(os.environ, VERIF_REPO=WT, VERIF_SEED=os.environ.get("VERIF_SEED", "6"))
                p = sh(os.path.join(VERIF, "check"), c, env=env)
                keys = [ln.split("key=", 1)[1].strip() for ln in p.stdout.splitlines() if ln.strip().startswith("key=")]
                inc = [ln for ln in p.stdout.splitlines() if ln.startswith("INCONCLUSIVE")]
                out[c] = dict(exit=p.returncode, keys=sorted(set(keys))[:6], inconclusive=inc[:2], wall_s=round(time.time() - t, 1))
                print("%s %s -> exit %d %s %s" % (bid, c, p.returncode, ",".join(sorted(set(keys))[:3]), inc[0][:120] if inc else ""), flush=True)
            results[bid] = dict(checks=out)
            json.dump(results, open(resfile, "w"), indent=1, sort_keys=True)
    finally:
        sh("git", "-C", "/repo", "worktree", "remove", "--force", WT)
    alarms = [(b, c) for b, v in results.items() for c, x in v.get("checks", {}).items() if x["exit"] == 1]
    print("ALARMS:", alarms)
    return 0


if __name__ == "__main__":
    sys.exit(main())
