#!/usr/bin/env python3
"""Run the registered checks against the seeded defects under /verif/seeded/<id>/.
  tools/seeded.py [--all-checks] [--tier quick] [ids...]
For each seeded change: git apply to /repo, run the check(s), record exit code and violation keys,
restore /repo (git checkout -- .). Nothing is ever committed to /repo. Writes seeded/RESULTS.md."""
import json
import os
import re
import subprocess
import sys
import time

VERIF = os.path.dirname(os.path.dirname(os.path.abspath(__file__)))
REPO = "/repo"
SEEDED = os.path.join(VERIF, "seeded")
ALL = ["C%02d" % i for i in range(1, 21)]


def sh(cmd, **kw):
    return subprocess.run(cmd, stdout=subprocess.PIPE, stderr=subprocess.STDOUT, text=True, **kw)


def repo_clean():
    r = sh(["git", "-C", REPO, "status", "--porcelain", "--untracked-files=no"])
    return r.stdout.strip() == ""


def run_check(prop, tier, seed=0):
    env = dict(os.environ, VERIF_SEED=str(seed), VERIF_EVIDENCE_DIR=os.path.join(VERIF, ".build", "evidence-scratch"))
    t = time.time()
    r = sh([os.path.join(VERIF, "check"), prop, "--tier", tier], cwd=VERIF, env=env)
    keys = re.findall(r"^\s+key=(\S+)", r.stdout, re.M)
    return r.returncode, keys, time.time() - t, r.stdout[-1500:]


def main():
    args = [a for a in sys.argv[1:] if not a.startswith("--")]
    all_checks = "--all-checks" in sys.argv
    tier = "thorough" if "--thorough" in sys.argv else "quick"
    ids = args or sorted(d for d in os.listdir(SEEDED) if os.path.isdir(os.path.join(SEEDED, d)))
    if not repo_clean():
        print("refusing: /repo has uncommitted changes to tracked files")
        return 2
    results = {}
    resfile = os.path.join(SEEDED, "results.json")
    if os.path.exists(resfile):
        results = json.load(open(resfile))
    for sid in ids:
        d = os.path.join(SEEDED, sid)
        meta = json.load(open(os.path.join(d, "meta.json")))
        patch = os.path.join(d, "patch.diff")
        props = ALL if all_checks else meta.get("checks") or [meta["property"]]
        r = sh(["git", "-C", REPO, "apply", "--check", patch])
        if r.returncode != 0:
            print(sid, "patch does not apply:", r.stdout[:300])
            results[sid] = dict(property=meta["property"], error="patch does not apply")
            continue
        try:
            sh(["git", "-C", REPO, "apply", patch])
            out = {}
            for p in props:
                rc, keys, dt, tail = run_check(p, tier)
                out[p] = dict(exit=rc, keys=sorted(set(keys))[:8], wall_s=round(dt, 1))
                print("%s %s -> exit %d %s (%.0fs)" % (sid, p, rc, ",".join(sorted(set(keys))[:3]), dt), flush=True)
            prev = results.get(sid, {}).get("checks", {}) if results.get(sid, {}).get("tier") == tier else {}
            prev.update(out)
            results[sid] = dict(property=meta["property"], summary=meta.get("summary", ""), needs=meta.get("needs_to_manifest", ""), tier=tier, checks=prev)
        finally:
            sh(["git", "-C", REPO, "checkout", "--", "."])
            assert repo_clean()
        json.dump(results, open(resfile, "w"), indent=1, sort_keys=True)
    # RESULTS.md
    with open(os.path.join(SEEDED, "RESULTS.md"), "w") as f:
        f.write("# Seeded defects and the checks that catch them\n\n")
        f.write("Each change was written by an independent sub-agent from the property text alone, confirmed by hand (compiles, the pinned suite\n"
                "passes with it, its demonstration fails with it and passes without), then `tools/seeded.py` applied it to /repo, ran the check(s)\n"
                "and restored the tree. exit 1 = caught (VIOLATION), exit 0 = missed, exit 2 = inconclusive.\n\n")
        f.write("| id | property | change | needs | checks run -> exit (first keys) |\n|---|---|---|---|---|\n")
        for sid in sorted(results):
            r = results[sid]
            if "checks" not in r:
                f.write("| %s | %s | %s | | |\n" % (sid, r.get("property"), r.get("error")))
                continue
            cs = "; ".join("%s -> %d %s" % (p, v["exit"], ("(" + ", ".join(v["keys"][:2]) + ")") if v["keys"] else "") for p, v in sorted(r["checks"].items())
                           if v["exit"] != 0 or p == r["property"])
            f.write("| %s | %s | %s | %s | %s |\n" % (sid, r["property"], r["summary"].replace("|", "/")[:220], r["needs"].replace("|", "/")[:200], cs))
    return 0


if __name__ == "__main__":
    sys.exit(main())
