#!/usr/bin/env python3
"""Regenerates /verif/MANIFEST.json from the table below (single source of truth for the interface)."""
import json
import os
import subprocess

VERIF = os.path.dirname(os.path.dirname(os.path.abspath(__file__)))

CLAIMED = {
    "C01": dict(cat="exploration", tech="reference-model monitor (independent TZif+POSIX+calendar oracle) at the API boundary, ASan+UBSan build",
                text="Every lookup(t) answer on shipped, zic-compiled and synthesised zones is compared with an independently written "
                     "TZif/POSIX-TZ/Gregorian model at probes concentrated on transitions, the recorded/rule seam, every year of the "
                     "400-year cycle, 400-year multiples and the int64 limits. Sampling, not proof: right level because the input space "
                     "is 2^64 instants x unbounded files and the defects of interest are boundary errors the probe set targets.",
                note="trusts harness/oracle.h (self-tested calendar; cross-validated against glibc/python zoneinfo in thorough tier), zic for class Z", ref="3/C01"),
    "C02": dict(cat="exploration", tech="reference-model monitor for civil->instant (kind, pre/trans/post, clamping), ASan+UBSan build",
                text="lookup(civil_second) compared with the oracle's instant-set semantics at every gap/overlap edge second, seam and "
                     "shifted years and the ends of both ranges.", note="trusts the oracle and the corpus well-formedness filter", ref="3/C02"),
    "C03": dict(cat="exploration", tech="round-trip relation monitor (no model): t->cs->t and cs->t->cs",
                text="Oracle-free relation between the two lookup directions, so it fires even if oracle and library shared a misreading.",
                note="none beyond the corpus domain", ref="3/C03"),
    "C06": dict(cat="exploration", tech="order monitor over sorted civil probe sets and dense 1-second sweeps",
                text="convert() is checked non-decreasing over each zone's whole sorted probe set (hence all pairs) and second-by-second "
                     "around real changes.", note="none beyond the corpus domain", ref="3/C06"),
    "C10": dict(cat="exploration", tech="sanitizers (ASan+UBSan fatal) + saturation oracle at the range limits",
                text="All conversion entry points run on limit-focused probes in an ASan/UBSan build with live asserts; saturation and "
                     "last-representable exactness are compared with 128-bit arithmetic.", note="UBSan detects only executed UB", ref="3/C10"),
    "C11": dict(cat="exploration", tech="chain/point-query monitor against the oracle's list of real changes",
                text="next/prev chains are compared with each other, with the oracle's change list and with point queries at T, T+-1, "
                     "also through the templated overloads with millisecond, nanosecond and minute time points (floor/ceil expectation); "
                     "old-style files whose type 0 is a daylight type in use are checked for the library's own consistency only.",
                note="how far rule-generated transitions are enumerated is deliberately not demanded", ref="3/C11"),
    "C04": dict(cat="exploration", tech="reference-model monitor (128-bit calendar oracle) + UBSan as the overflow detector; 146097-day cycle enumerated",
                text="All six civil types are constructed from vetted tuples (exhaustive cycle bases x overlay panel, random int64 mixtures) "
                     "and compared field by field with a 128-bit normalisation written from the statement; UBSan makes any avoidable "
                     "intermediate overflow fatal; every year in [-2^29, 2^29) (thorough +-2^32) is swept with eight constructions that carry "
                     "across the end of February and the year boundary.", note="trusts O-CAL (self-tested by naive walk)", ref="3/C04"),
    "C05": dict(cat="exploration", tech="reference-model + algebraic-law monitor under UBSan",
                text="Addition, subtraction, difference, increments and all relational operators are compared with unit-index arithmetic "
                     "in 128-bit, and the inverse laws are checked on the library's own results, for every alignment, including the "
                     "int64 extremes; every year in [-2^29, 2^29) (thorough +-2^32) is swept with twelve steps, differences and comparisons "
                     "across the end of February and the year boundary.", note="trusts O-CAL", ref="3/C05"),
    "C17": dict(cat="exploration", tech="reference-model monitor, exhaustive over the 146097-day cycle x 7 weekdays at 13 cycle offsets, plus a sweep of every year in [-2^30, 2^30) (thorough +-2^32)",
                text="weekday/yearday/next/prev_weekday compared with day-count arithmetic for every day of the Gregorian cycle, "
                     "replicated across the int64 year range; every year in [-2^30, 2^30) (thorough: [-2^32, 2^32)) is asked six questions "
                     "around the end of February and of the year against an oracle advanced year by year.", note="trusts O-CAL", ref="3/C17"),
    "C12": dict(cat="exploration", tech="sanitizers (ASan+UBSan fatal, asserts live) + per-case watchdog + determinism differential across pre-fill builds; memcheck and libFuzzer in the thorough tier",
                text="Tens of thousands (thorough: millions) of structure-aware hostile inputs are loaded through the documented data-source "
                     "extension point in an ASan/UBSan build under a supervisor that attributes every report, abort and hang to its input; the "
                     "outcome digest must be identical for two loads in one process and across builds whose automatic variables are "
                     "pre-filled with a pattern and with zero (observes reads of uninitialised locals); thorough adds valgrind memcheck and "
                     "coverage-guided fuzzing.", note="red-zone tools miss intra-object overflows; MSan not used (uninstrumented libstdc++)", ref="3/C12"),
    "C15": dict(cat="exploration", tech="reference-model monitor, exhaustive over the 180001 offsets; counting data-source factory",
                text="Every offset in [-90000, 90000] is checked against a 15-line model of the statement (name, abbreviation, lookup, "
                     "round trip through the name, no data-source access), and thousands of mutated names against the shape predicate.",
                note="model in harness/fixedmon.cc", ref="3/C15"),
    "C16": dict(cat="exploration", tech="differential monitor against an independent recursive-descent parser + pre-fill determinism + end-to-end footer loads",
                text="Millions of grammar sentences, boundary values, single-edit mutants and random strings are parsed by the library and by "
                     "O-POSIX; acceptance must agree both ways and every meaningful field must match and be independent of how the result "
                     "struct was pre-filled; after a rejected string the previously accepted one is parsed again (what a rejection leaves "
                     "behind must not show).", note="NUL-containing strings are outside the domain", ref="3/C16"),
    "C07": dict(cat="exploration", tech="round-trip relation monitor (format then parse), ASan+UBSan build",
                text="Millions of (zone, instant, femtoseconds, lossless format, parse zone) cases from a generated family of lossless "
                     "formats; the oracle is equality, so no model can be wrong.", note="lossless family as documented in DESIGN.md 3/C07", ref="3/C07"),
    "C08": dict(cat="exploration", tech="reference renderer (O-FMT: documented rules + oracle's own strftime per token) and sanitizers on malformed formats; libFuzzer in the thorough tier",
                text="Output of format() for token sequences is compared with the concatenation of per-token expectations computed from "
                     "lookup() fields; arbitrary and malformed format strings run under ASan/UBSan.", note="C locale; glibc strftime is the reference for delegated specifiers", ref="3/C08"),
    "C09": dict(cat="exploration", tech="reference-parser differential (O-FMT) both ways on generated near-canonical inputs + sanitizers on arbitrary pairs; libFuzzer with the differential in the target (thorough)",
                text="Acceptance and the returned instant are compared with a reference parser written from the documentation, on inputs "
                     "built from chosen fields, boundary values and single-character edits; zone-read times resolved through O-ZONE.",
                note="formats using strptime-delegated specifiers are outside the model (sanitizer coverage only)", ref="3/C09"),
    "C18": dict(cat="exploration", tech="exact rational floor oracle (128-bit) over a panel of 16 duration types under UBSan",
                text="lookup/convert/format/parse templates are instantiated for each duration type and compared with exact floor "
                     "arithmetic at every remainder class near the epoch and at each representation's limits.",
                note="values whose whole-second count does not fit time_point<seconds> are documented UB and not passed", ref="3/C18"),
    "C13": dict(cat="exploration", tech="ThreadSanitizer stress with fresh first-load races + stateless DFS over loader schedules at hook granularity + differential against single-threaded answers",
                text="Hundreds of barrier-released rounds with up to 64 threads race first loads of fresh names while hammering shared zones, "
                     "under -fsanitize=thread with a monitor that adds no synchronisation on the observed paths; every answer is compared "
                     "with the single-threaded one and zone identity across threads is checked; all orders of the loader's critical "
                     "sections for 2-3 (thorough 4) threads are enumerated by parking threads at the load hooks.",
                note="schedule enumeration at hook granularity; TSan sees only interleavings that occurred", ref="3/C13"),
    "C20": dict(cat="exploration", tech="offline checker over the factory's own event log (once per name, serial, on the loading thread, never for internal names) from enumerated schedules, planned overtake schedules (a parked waiter overtaken by N first-time loads) and stress runs",
                text="The replaced zone_info_source_factory logs enter/exit with thread id and a global sequence number; the log of every "
                     "enumerated schedule (threads held inside the factory in every order) and of every stress round is checked against "
                     "the documented contract.", note="sequence numbers come from one relaxed atomic counter; overlap = an enter between another invocation's enter and exit", ref="3/C20"),
    "C14": dict(cat="exploration", tech="hidden-state enumeration with the hint hook as witness + differential between copies with different histories + counting data source",
                text="Every table index reachable by one preceding query is set in both directions and probed with a 24-query panel, "
                     "answers compared with a second copy of the same bytes under another cache key; the hint hook proves which states "
                     "and hint hits were exercised; long random histories are compared with independently driven and freshly loaded "
                     "copies; the cache is observed through a counting zone-data source, also in a long-lived process with thousands of failed and "
                     "loaded names revisited after the data behind them changed; in-process histories that change TZDIR/TZ/LOCALTIME "
                     "between first-time loads are predicted from the environment of that moment plus the name cache.",
                note="hidden state assumed to be the two hint indices + the name cache (what the anchors name)", ref="3/C14"),
    "C19": dict(cat="exploration", tech="environment-matrix monitor: child processes per environment vs a Python model of the resolution rules; strace fault injection in the thorough tier",
                text="260 environments (TZDIR x TZ x LOCALTIME) x 34 names + local_time_zone() + default construction are run in child "
                     "processes with the library's default file source and compared with a model that reads the files itself; data identity "
                     "via digest equality with the absolute-path load; every proper prefix of 7 well-formed files must fail to load; in-process "
                     "environment-change histories.", note="Linux/glibc branch only", ref="3/C19"),
}

PENDING = {}

ALL = ["C%02d" % i for i in range(1, 21)]


def main():
    hooks = subprocess.run(["git", "-C", "/repo", "log", "--format=%H", "--grep=^verif hooks"], stdout=subprocess.PIPE, text=True).stdout.split()
    checks = []
    for p in ALL:
        if p not in CLAIMED:
            continue
        c = CLAIMED[p]
        checks.append(dict(
            property_id=p,
            quick_cmd="./check %s --tier quick" % p,
            thorough_cmd="./check %s --tier thorough" % p,
            evidence_file="evidence/%s.json" % p,
            replay_cmd_template="./check %s --replay {path}" % p,
            engine="runtime-monitors",
            level_claimed=dict(category=c["cat"], text=c["text"], design_ref="DESIGN.md section " + c["ref"]),
            level_note=c["note"],
            technique=c["tech"],
        ))
    na = [dict(property_id=p, reason=PENDING.get(p, "check not built yet in this round (planned: DESIGN.md section 3); no claim is made"))
          for p in ALL if p not in CLAIMED]
    m = dict(
        version=1,
        setup_cmd="python3 tools/setup.py",
        hooks=dict(guard="GOOGLE_CCTZ_VERIF",
                   enable="checks compile /repo/src/*.cc themselves with -DGOOGLE_CCTZ_VERIF (vlib/build.py), one build per sanitizer flavour",
                   baseline_off_cmd="cmake -G Ninja -S /repo -B /repo/_build && cmake --build /repo/_build && ctest --test-dir /repo/_build -j8 --timeout 900",
                   source_commits=hooks, add_only=True),
        engines=[dict(name="runtime-monitors", path="check", serves_properties=sorted(CLAIMED),
                      kind_free_text="C++ monitors (harness/) run under gcc/clang sanitizers and valgrind, driven by vlib/*.py; "
                                     "oracles independent of cctz; verdicts through known_findings.txt")],
        checks=checks,
        notes="Technique family: runtime monitoring and sanitizers. exit 0 held / 1 VIOLATION / 2 inconclusive. See DESIGN.md.",
        not_applicable=na,
    )
    with open(os.path.join(VERIF, "MANIFEST.json"), "w") as f:
        json.dump(m, f, indent=1)
        f.write("\n")


if __name__ == "__main__":
    main()
