#!/usr/bin/env python3
"""Verify a sub-agent's seeded change by hand-equivalent steps in its scratch worktree and import it under /verif/seeded/<id>/.
  tools/import_seed.py <worktree> <outdir> <k> <new-id> <round>
Steps: worktree clean; demo passes on the unchanged build; patch applies; library builds; pinned suite passes; demo (recompiled against
the patched headers) fails; worktree restored and rebuilt. Writes patch.diff, demo.cc, meta.json only if every step held."""
import json, os, shutil, subprocess, sys

wt, out, k, sid, rnd = sys.argv[1:6]
def sh(cmd, cwd=wt, timeout=900):
    p = subprocess.run(cmd, shell=True, cwd=cwd, stdout=subprocess.PIPE, stderr=subprocess.STDOUT, text=True, timeout=timeout)
    return p.returncode, p.stdout
def build():
    return sh("cmake -G Ninja -B build -S . -DCMAKE_BUILD_TYPE=Release >/dev/null && cmake --build build -j8 2>&1 | tail -3")
def demo():
    rc, o = sh("g++ -std=c++17 -O1 -I include -I src %s/demo%s.cc build/libcctz.a -pthread -o %s/demo%s.vbin" % (out, k, out, k))
    if rc != 0:
        return None, o
    worst = 0
    for _ in range(3):
        try:
            rc, o = sh("%s/demo%s.vbin" % (out, k), timeout=120)
        except subprocess.TimeoutExpired:
            rc, o = 124, "timeout"
        worst = max(worst, abs(rc))
        if rc != 0:
            break
    return worst, o[-400:]
steps = {}
sh("git checkout -- .")
rc, o = build(); steps["build_clean"] = rc == 0
d0, o0 = demo(); steps["demo_passes_without"] = d0 == 0
rc, o = sh("git apply %s/patch%s.diff" % (out, k)); steps["applies"] = rc == 0
rc, o = build(); steps["builds_with"] = rc == 0
rc, o = sh("ctest --test-dir build -j8 2>&1 | tail -4"); steps["suite_passes_with"] = rc == 0 and "100% tests passed" in o
d1, o1 = demo(); steps["demo_fails_with"] = d1 not in (0, None)
sh("git checkout -- ."); build()
print(sid, json.dumps(steps), "| demo-with:", (o1 or "").strip().splitlines()[-1:] )
if not all(steps.values()):
    sys.exit(1)
dst = os.path.join(os.path.dirname(os.path.dirname(os.path.abspath(__file__))), "seeded", sid)
os.makedirs(dst, exist_ok=True)
shutil.copy("%s/patch%s.diff" % (out, k), dst + "/patch.diff")
shutil.copy("%s/demo%s.cc" % (out, k), dst + "/demo.cc")
meta = json.load(open("%s/meta%s.json" % (out, k)))
meta.update(id=sid, round=int(rnd), written_by="independent sub-agent given only the property text and a scratch worktree (round 6: asked for changes "
            "needing a specific interleaving, fault, multi-step sequence, unusual input or two cooperating edits)",
            verified_by_hand="tools/import_seed.py in the scratch worktree: demo exits 0 on the unchanged build; git apply; cmake --build; ctest (all pass); "
            "demo recompiled, exits non-zero with the patch; worktree restored", verification_steps=steps)
json.dump(meta, open(dst + "/meta.json", "w"), indent=1)
