#!/usr/bin/env python3
"""Oracle validation (DESIGN.md 2.4): the model's reading of TZif + POSIX TZ is compared with two foreign
implementations on the overlap they support:
  * Python's zoneinfo.ZoneInfo.from_file (years 1..9999): utcoffset and tzname at transition neighbourhoods,
    every year of the footer cycle, random instants;
  * glibc localtime_r with TZ=:/abs/path (1902..2400) through harness/oraclecheck.cc, which also exercises the
    C++ oracle (harness/oracle.h) rather than its Python twin.
An unexplained disagreement is a harness failure (exit 2). Documented differences of the foreign
implementations are listed in ALLOW with the reason.
usage: tools/oracle_validate.py [--seed N] [--zones N]"""
import datetime
import os
import random
import subprocess
import sys
from zoneinfo._zoneinfo import ZoneInfo  # pure-Python implementation (the C accelerator of this build crashes on some legal files)

sys.path.insert(0, os.path.dirname(os.path.dirname(os.path.abspath(__file__))))
from vlib import build, corpus  # noqa: E402
from vlib import pymodel as M  # noqa: E402

EPOCH = datetime.datetime(1970, 1, 1, tzinfo=datetime.timezone.utc)
LO = M.days_from_civil(1, 1, 2) * 86400
HI = M.days_from_civil(9999, 12, 30) * 86400


def probes(z, rnd):
    ts = set()
    for t in z.times:
        for d in (-1, 0, 1, 3600, -3600):
            ts.add(t + d)
    if z.posix and z.posix.ok and z.posix.dst and not z.posix.allyear() and z.times:
        y0 = M.civil(z.times[-1])[0]
        for y in list(range(y0, y0 + 403)) + [3000, 5000, 9000, 9998]:
            for t in (z.posix.start_of(y), z.posix.end_of(y)):
                for d in (-1, 0, 1):
                    ts.add(t + d)
    for _ in range(200):
        ts.add(rnd.randrange(LO, HI))
    return sorted(t for t in ts if LO <= t <= HI)


def main():
    seed = 0
    nz = 10 ** 9
    a = sys.argv[1:]
    if "--seed" in a:
        seed = int(a[a.index("--seed") + 1])
    if "--zones" in a:
        nz = int(a[a.index("--zones") + 1])
    work = os.path.join(build.BUILD, "work", "oracle-validate-%d" % os.getpid())
    ents = corpus.build_corpus(os.path.join(work, "corpus"), seed, r_sample=None, n_s=150, n_early=10, n_ancient=0, n_z=60, want_fixed=False)
    rnd = random.Random(seed)
    rnd.shuffle(ents)
    ents = ents[:nz]
    bad = 0
    compared = 0
    skipped_pre_first = 0
    skipped_nform = 0
    skipped_other = 0
    per_zone = {}
    for cls, name, path, _ in ents:
        data = open(path, "rb").read()
        z = M.TZ(data)
        try:
            with open(path, "rb") as f:
                zi = ZoneInfo.from_file(f, key=name)
        except Exception as e:  # zoneinfo rejects some legal files (documented: e.g. v1-only data without transitions)
            print("zoneinfo cannot read %s/%s: %s" % (cls, name, e))
            continue
        # ALLOW: CPython < 3.12.? evaluates the zero-based 'n' date form one day early (days_before_year + d with a 1-based
        # ordinal base); footers using that form are compared only up to the last recorded transition (glibc covers them)
        nform = bool(z.posix and z.posix.ok and z.posix.dst and (z.posix.start[0][0] == "N" or z.posix.end[0][0] == "N"))
        # ALLOW: CPython counts J59 (Feb 28) as Feb 29 in leap years (d >= 59 instead of d > 59)
        j59 = bool(z.posix and z.posix.ok and z.posix.dst and (z.posix.start[0] == ("J", 59) or z.posix.end[0] == ("J", 59)))
        # ALLOW: a file without transitions but several types: zoneinfo takes the last type of the table, RFC 9636 type 0
        if not z.times and len(z.types) > 1:
            skipped_other += 1
            continue
        rules = bool(z.posix and z.posix.ok and z.posix.dst and not z.posix.allyear())
        # ALLOW: CPython unpacks the designation index as a *signed* byte (">lbb"), so designations at table offsets
        # >= 128 (RFC 9636: unsigned) come out as ''; for those types only the offset is compared
        hi_abbr = {z.types[i][2] for i, rt in enumerate(z.raw_types) if rt[2] >= 128}
        for t in probes(z, rnd):
            if (nform or j59) and z.times and t >= z.times[-1]:
                skipped_nform += 1
                continue
            if z.times and z.times[-1] < t < z.times[-1] + 86400:
                # ALLOW: the pure-Python zoneinfo does not set fold after the final recorded transition, so utcoffset() of the
                # converted datetime picks the earlier reading inside that transition's overlap (the C accelerator does)
                skipped_other += 1
                continue
            if rules and z.times and t >= z.times[-1]:
                # ALLOW: like glibc, zoneinfo evaluates the rules of the UTC year of t only; rule times reach +-167 h, so skip
                # instants within 9 days of a UTC year boundary in the footer region
                y = M.civil(t)[0]
                if t - M.days_from_civil(y, 1, 1) * 86400 < 9 * 86400 or M.days_from_civil(y + 1, 1, 1) * 86400 - t < 9 * 86400:
                    skipped_other += 1
                    continue
            if z.times and t < z.times[0]:
                # ALLOW: before the first transition zoneinfo uses the first *standard* type, the model (and RFC 9636) type 0;
                # corpus files make these coincide unless type 0 is unused, so only count agreement where types agree
                skipped_pre_first += 1
                continue
            exp = z.lookup(t)
            dt = EPOCH + datetime.timedelta(seconds=t)
            loc = dt.astimezone(zi)
            off = loc.utcoffset()
            got_off = off.days * 86400 + off.seconds
            compared += 1
            # ALLOW: zoneinfo rounds nothing but cannot represent sub-second... offsets are whole seconds: exact compare
            if got_off != exp[0] or (loc.tzname() != exp[2] and exp[2] not in hi_abbr):
                bad += 1
                per_zone[(cls, name, z.footer)] = per_zone.get((cls, name, z.footer), 0) + 1
                if bad <= 20:
                    print("DISAGREE zoneinfo %s/%s t=%d model=%r zoneinfo=(%d,%s)" % (cls, name, t, exp, got_off, loc.tzname()))
    for k, v in sorted(per_zone.items(), key=lambda kv: -kv[1])[:30]:
        print("PERZONE", v, k)
    print("zoneinfo: zones=%d comparisons=%d disagreements=%d skipped_pre_first=%d skipped_n_or_J59_footer=%d skipped_other_allowances=%d" % (len(ents), compared, bad, skipped_pre_first, skipped_nform, skipped_other))
    # glibc through the C++ oracle
    exe = build.build_bin("plain", "oraclecheck")
    lst = os.path.join(work, "corpus", "list.txt")
    p = subprocess.run([exe, lst], stdout=subprocess.PIPE, stderr=subprocess.STDOUT, text=True, timeout=3600)
    print(p.stdout[-3000:])
    bad2 = p.returncode != 0
    import shutil
    shutil.rmtree(work, ignore_errors=True)
    if bad or bad2:
        print("ORACLE-VALIDATION-FAILED")
        return 2
    print("ORACLE-VALIDATION-OK")
    return 0


if __name__ == "__main__":
    sys.exit(main())
