#!/usr/bin/env python3
"""setup_cmd: build the flavour libraries and monitor binaries from files on disk (offline).
Every check rebuilds on demand anyway (the cache is keyed by the hash of /repo's sources);
this only warms the cache so that the first quick check is not charged the compile time."""
import os
import sys
import time
from concurrent.futures import ThreadPoolExecutor

sys.path.insert(0, os.path.dirname(os.path.dirname(os.path.abspath(__file__))))
from vlib import build, registry  # noqa: E402


def main():
    t0 = time.time()
    jobs = getattr(registry, "PREBUILD", [("asan", "zonemon")])
    flavours = sorted(set(f for f, _ in jobs))
    with ThreadPoolExecutor(max_workers=4) as ex:
        list(ex.map(build.build_lib, flavours))
    with ThreadPoolExecutor(max_workers=6) as ex:
        list(ex.map(lambda j: build.build_bin(*j), jobs))
    print("setup ok: %d binaries in %.0fs" % (len(jobs), time.time() - t0))


if __name__ == "__main__":
    main()
