// Independent reference model used by the monitors. Shares no code with cctz.
//   O-CAL   proleptic Gregorian calendar on __int128
//   O-TZIF  TZif reader (RFC 9636 layout)
//   O-POSIX POSIX-TZ parser + evaluator
//   O-ZONE  instant -> type, civil -> instants, list of real changes
#ifndef VERIF_ORACLE_H_
#define VERIF_ORACLE_H_

#include <algorithm>
#include <cstdint>
#include <cstdio>
#include <cstring>
#include <set>
#include <string>
#include <vector>

namespace orc {

typedef __int128 i128;

inline std::string str(i128 v) {
  if (v == 0) return "0";
  bool neg = v < 0;
  unsigned __int128 u = neg ? -(unsigned __int128)v : (unsigned __int128)v;
  std::string s;
  while (u) {
    s += static_cast<char>('0' + static_cast<int>(u % 10));
    u /= 10;
  }
  if (neg) s += '-';
  std::reverse(s.begin(), s.end());
  return s;
}

inline i128 fdiv(i128 a, i128 b) {
  i128 q = a / b, r = a % b;
  if (r != 0 && ((r < 0) != (b < 0))) --q;
  return q;
}
inline i128 fmod(i128 a, i128 b) { return a - fdiv(a, b) * b; }

const i128 I64MAX = INT64_MAX;
const i128 I64MIN = INT64_MIN;
inline bool fits64(i128 v) { return v >= I64MIN && v <= I64MAX; }
inline int64_t clamp64(i128 v) {
  return v > I64MAX ? INT64_MAX : v < I64MIN ? INT64_MIN : static_cast<int64_t>(v);
}

// ---------------------------------------------------------------- O-CAL ----
inline bool leap(i128 y) { return fmod(y, 4) == 0 && (fmod(y, 100) != 0 || fmod(y, 400) == 0); }

// days from 1970-01-01 to y-01-01 (count of days in whole years, by definition)
inline i128 days_before_year(i128 y) {
  i128 p = y - 1;  // full years since year 1
  return 365 * p + fdiv(p, 4) - fdiv(p, 100) + fdiv(p, 400) - 719162;
}
static const int kCum[2][13] = {
    {0, 31, 59, 90, 120, 151, 181, 212, 243, 273, 304, 334, 365},
    {0, 31, 60, 91, 121, 152, 182, 213, 244, 274, 305, 335, 366}};
inline int month_len(i128 y, int m) { return kCum[leap(y)][m] - kCum[leap(y)][m - 1]; }
inline i128 days_from_civil(i128 y, int m, int d) {
  return days_before_year(y) + kCum[leap(y)][m - 1] + (d - 1);
}
inline void civil_from_days(i128 z, i128* y, int* m, int* d) {
  i128 n = z + 719162;  // days since 0001-01-01
  i128 q400 = fdiv(n, 146097);
  i128 r = n - q400 * 146097;
  i128 c = r / 36524;
  if (c > 3) c = 3;
  r -= c * 36524;
  i128 q4 = r / 1461;
  if (q4 > 24) q4 = 24;
  r -= q4 * 1461;
  i128 y1 = r / 365;
  if (y1 > 3) y1 = 3;
  r -= y1 * 365;
  *y = 1 + q400 * 400 + c * 100 + q4 * 4 + y1;
  const int* cum = kCum[leap(*y)];
  int mm = 1;
  while (cum[mm] <= r) ++mm;
  *m = mm;
  *d = static_cast<int>(r - cum[mm - 1]) + 1;
}
// 0 = Sunday. 1970-01-01 (day 0) is a Thursday (4).
inline int weekday_of_days(i128 z) { return static_cast<int>(fmod(z + 4, 7)); }

struct Civ {
  i128 y;
  int m, d, H, M, S;
  bool operator==(const Civ& o) const {
    return y == o.y && m == o.m && d == o.d && H == o.H && M == o.M && S == o.S;
  }
  bool operator!=(const Civ& o) const { return !(*this == o); }
};
inline Civ civ_from_secs(i128 t) {
  i128 dd = fdiv(t, 86400);
  int s = static_cast<int>(t - dd * 86400);
  Civ c;
  civil_from_days(dd, &c.y, &c.m, &c.d);
  c.H = s / 3600;
  c.M = (s / 60) % 60;
  c.S = s % 60;
  return c;
}
inline i128 secs_from_civ(const Civ& c) {
  return days_from_civil(c.y, c.m, c.d) * 86400 + c.H * 3600 + c.M * 60 + c.S;
}
inline std::string str(const Civ& c) {
  char b[64];
  snprintf(b, sizeof b, "-%02d-%02dT%02d:%02d:%02d", c.m, c.d, c.H, c.M, c.S);
  return str(c.y) + b;
}

// Normalise six unbounded fields as the C04 statement says: carry seconds, minutes,
// hours upward; months into the year first; then count days from the 1st of that month.
inline Civ normalize(i128 y, i128 m, i128 d, i128 H, i128 M, i128 S) {
  i128 cm = fdiv(S, 60);
  S -= cm * 60;
  M += cm;
  i128 ch = fdiv(M, 60);
  M -= ch * 60;
  H += ch;
  i128 cd = fdiv(H, 24);
  H -= cd * 24;
  i128 cy = fdiv(m - 1, 12);
  m -= cy * 12;
  y += cy;
  i128 days = days_from_civil(y, static_cast<int>(m), 1) + (d - 1) + cd;
  Civ c;
  civil_from_days(days, &c.y, &c.m, &c.d);
  c.H = static_cast<int>(H);
  c.M = static_cast<int>(M);
  c.S = static_cast<int>(S);
  return c;
}

// Self-test: naive day-by-day walk over > one 400-year cycle, both directions of the
// conversion, weekday progression. Returns empty string on success.
inline std::string selftest_calendar() {
  i128 y = 1600;
  int m = 1, d = 1;
  i128 z = days_from_civil(1600, 1, 1);
  // anchor: 1970-01-01 is day 0, 2000-03-01 is day 11017
  if (days_from_civil(1970, 1, 1) != 0) return "anchor 1970";
  if (days_from_civil(2000, 3, 1) != 11017) return "anchor 2000-03-01";
  int wd = weekday_of_days(z);
  if (wd != 6) return "1600-01-01 must be Saturday";
  for (long i = 0; i < 146097L * 2 + 800; ++i) {
    if (days_from_civil(y, m, d) != z) return "days_from_civil at " + str(z);
    i128 yy;
    int mm, dd;
    civil_from_days(z, &yy, &mm, &dd);
    if (yy != y || mm != m || dd != d) return "civil_from_days at " + str(z);
    if (weekday_of_days(z) != wd) return "weekday at " + str(z);
    // also at +/- k*400 years
    for (i128 k : {(i128)-7, (i128)5000000000LL}) {
      civil_from_days(z + k * 146097, &yy, &mm, &dd);
      if (yy != y + k * 400 || mm != m || dd != d) return "cycle shift";
      if (days_from_civil(y + k * 400, m, d) != z + k * 146097) return "cycle shift inv";
    }
    // naive step
    static const int ml[12] = {31, 28, 31, 30, 31, 30, 31, 31, 30, 31, 30, 31};
    bool lp = (y % 4 == 0 && (y % 100 != 0 || y % 400 == 0));
    int len = ml[m - 1] + ((m == 2 && lp) ? 1 : 0);
    if (++d > len) {
      d = 1;
      if (++m > 12) {
        m = 1;
        ++y;
      }
    }
    ++z;
    wd = (wd + 1) % 7;
  }
  return "";
}

// --------------------------------------------------------------- O-TZIF ----
struct TType {
  int32_t off = 0;
  bool dst = false;
  int abbr_idx = 0;
  std::string abbr;
  bool same(const TType& o) const { return off == o.off && dst == o.dst && abbr == o.abbr; }
};
struct TZif {
  int version = 0;  // 1,2,3,4 (from the version byte: 0 -> 1)
  char version_byte = 0;
  std::vector<int64_t> times;
  std::vector<uint8_t> idx;
  std::vector<TType> types;
  std::string abbr_chars;
  std::string footer;
  bool has_footer = false;
  long leapcnt = 0;
  // sizes, for mutators
  size_t v1_hdr_off = 0, v2_hdr_off = 0, v2_data_off = 0, footer_off = 0;
};
inline int64_t be_i(const unsigned char* p, int n) {
  uint64_t v = 0;
  for (int i = 0; i < n; ++i) v = (v << 8) | p[i];
  if (n == 4) return static_cast<int32_t>(static_cast<uint32_t>(v));
  return static_cast<int64_t>(v);
}
// Returns "" when parsed, otherwise the reason (for well-formed corpus files this must be "").
inline std::string parse_tzif(const std::string& bytes, TZif* z) {
  const unsigned char* b = reinterpret_cast<const unsigned char*>(bytes.data());
  size_t n = bytes.size();
  size_t off = 0;
  int tl = 4;
  for (int pass = 0; pass < 2; ++pass) {
    if (off + 44 > n) return "short header";
    if (memcmp(b + off, "TZif", 4) != 0) return "bad magic";
    char ver = static_cast<char>(b[off + 4]);
    int64_t c[6];
    for (int i = 0; i < 6; ++i) {
      c[i] = be_i(b + off + 20 + 4 * i, 4);
      if (c[i] < 0) return "negative count";
    }
    size_t isut = c[0], isstd = c[1], leapc = c[2], timec = c[3], typec = c[4], charc = c[5];
    size_t dl = timec * (tl + 1) + typec * 6 + charc + leapc * (tl + 4) + isstd + isut;
    if (pass == 0) {
      z->version_byte = ver;
      z->v1_hdr_off = off;
      if (ver != 0) {
        off += 44 + dl;
        tl = 8;
        z->v2_hdr_off = off;
        continue;
      }
    }
    size_t o = off + 44;
    z->v2_data_off = o;
    if (o + dl > n) return "short data";
    if (typec == 0) return "no types";
    z->leapcnt = static_cast<long>(leapc);
    z->times.resize(timec);
    for (size_t i = 0; i < timec; ++i) z->times[i] = be_i(b + o + i * tl, tl);
    o += timec * tl;
    z->idx.assign(b + o, b + o + timec);
    o += timec;
    z->types.resize(typec);
    for (size_t i = 0; i < typec; ++i) {
      z->types[i].off = static_cast<int32_t>(be_i(b + o + 6 * i, 4));
      z->types[i].dst = b[o + 6 * i + 4] != 0;
      z->types[i].abbr_idx = b[o + 6 * i + 5];
    }
    o += 6 * typec;
    z->abbr_chars.assign(reinterpret_cast<const char*>(b + o), charc);
    for (auto& t : z->types) {
      if (static_cast<size_t>(t.abbr_idx) >= charc) return "abbr index";
      size_t e = z->abbr_chars.find('\0', t.abbr_idx);
      if (e == std::string::npos) e = charc;
      t.abbr = z->abbr_chars.substr(t.abbr_idx, e - t.abbr_idx);
    }
    for (auto i : z->idx)
      if (i >= typec) return "type index";
    o += charc + leapc * (tl + 4) + isstd + isut;
    z->has_footer = false;
    z->footer.clear();
    z->footer_off = o;
    if (ver != 0) {
      if (o >= n || b[o] != '\n') return "no footer NL";
      size_t e = o + 1;
      while (e < n && b[e] != '\n') ++e;
      if (e >= n) return "unterminated footer";
      z->footer.assign(reinterpret_cast<const char*>(b + o + 1), e - o - 1);
      z->has_footer = true;
    }
    z->version = ver == 0 ? 1 : (ver - '0');
    return "";
  }
  return "unreachable";
}

// -------------------------------------------------------------- O-POSIX ----
struct PRule {
  char kind = 0;  // 'J' (1..365, no leap day), 'N' (0..365), 'M' (month, week, weekday)
  int a = 0, b = 0, c = 0;
  int32_t time = 7200;
  bool operator==(const PRule& o) const {
    return kind == o.kind && a == o.a && b == o.b && c == o.c && time == o.time;
  }
};
struct Posix {
  std::string std_abbr, dst_abbr;
  int32_t std_off = 0, dst_off = 0;
  bool has_dst = false;  // a dst part was present in the string
  PRule start, end;
};

class PosixParser {
 public:
  explicit PosixParser(const std::string& s) : s_(s), p_(0) {}
  bool parse(Posix* r) {
    if (!s_.empty() && s_[0] == ':') return false;
    if (!abbr(&r->std_abbr)) return false;
    if (!offset(0, 24, -1, &r->std_off)) return false;
    if (eof()) {
      r->has_dst = false;
      return true;
    }
    if (!abbr(&r->dst_abbr)) return false;
    r->has_dst = true;
    r->dst_off = r->std_off + 3600;
    if (!eof() && cur() != ',') {
      if (!offset(0, 24, -1, &r->dst_off)) return false;
    }
    if (!datetime(&r->start)) return false;
    if (!datetime(&r->end)) return false;
    return eof();
  }

 private:
  const std::string& s_;
  size_t p_;
  bool eof() const { return p_ >= s_.size(); }
  char cur() const { return s_[p_]; }
  static bool isdig(char c) { return c >= '0' && c <= '9'; }
  bool abbr(std::string* out) {
    if (eof()) return false;
    if (cur() == '<') {
      size_t e = s_.find('>', p_ + 1);
      if (e == std::string::npos) return false;
      out->assign(s_, p_ + 1, e - p_ - 1);
      p_ = e + 1;
      return true;
    }
    size_t b = p_;
    while (!eof() && !isdig(cur()) && cur() != '+' && cur() != '-' && cur() != ',') ++p_;
    if (p_ - b < 3) return false;
    out->assign(s_, b, p_ - b);
    return true;
  }
  bool num(long lo, long hi, long* v) {
    size_t b = p_;
    i128 acc = 0;
    while (!eof() && isdig(cur())) {
      acc = acc * 10 + (cur() - '0');
      if (acc > 2147483647) return false;  // the documented fields are ints
      ++p_;
    }
    if (p_ == b) return false;
    if (acc < lo || acc > hi) return false;
    *v = static_cast<long>(acc);
    return true;
  }
  bool offset(long lo_h, long hi_h, int sign, int32_t* out) {
    if (!eof() && (cur() == '+' || cur() == '-')) {
      if (cur() == '-') sign = -sign;
      ++p_;
    }
    long h = 0, m = 0, s = 0;
    if (!num(lo_h, hi_h, &h)) return false;
    if (!eof() && cur() == ':') {
      ++p_;
      if (!num(0, 59, &m)) return false;
      if (!eof() && cur() == ':') {
        ++p_;
        if (!num(0, 59, &s)) return false;
      }
    }
    *out = static_cast<int32_t>(sign * (h * 3600 + m * 60 + s));
    return true;
  }
  bool datetime(PRule* r) {
    if (eof() || cur() != ',') return false;
    ++p_;
    long v;
    if (!eof() && cur() == 'M') {
      ++p_;
      r->kind = 'M';
      if (!num(1, 12, &v)) return false;
      r->a = static_cast<int>(v);
      if (eof() || cur() != '.') return false;
      ++p_;
      if (!num(1, 5, &v)) return false;
      r->b = static_cast<int>(v);
      if (eof() || cur() != '.') return false;
      ++p_;
      if (!num(0, 6, &v)) return false;
      r->c = static_cast<int>(v);
    } else if (!eof() && cur() == 'J') {
      ++p_;
      r->kind = 'J';
      if (!num(1, 365, &v)) return false;
      r->a = static_cast<int>(v);
    } else {
      r->kind = 'N';
      if (!num(0, 365, &v)) return false;
      r->a = static_cast<int>(v);
    }
    r->time = 7200;
    if (!eof() && cur() == '/') {
      ++p_;
      if (!offset(0, 167, 1, &r->time)) return false;
    }
    return true;
  }
};
inline bool parse_posix(const std::string& s, Posix* r) {
  *r = Posix();
  return PosixParser(s).parse(r);
}

// seconds from the start (00:00 local) of year y to the rule's moment (local wall clock of the
// offset in force before the change)
inline i128 rule_secs_in_year(i128 y, const PRule& r) {
  i128 day = 0;  // 0-based day of year
  bool lp = leap(y);
  if (r.kind == 'J') {
    day = r.a - 1;
    if (lp && r.a >= 60) day += 1;  // Feb 29 is never counted
  } else if (r.kind == 'N') {
    day = r.a;
  } else {
    int first = kCum[lp][r.a - 1];                                   // day-of-year of the 1st of the month
    int wd1 = weekday_of_days(days_from_civil(y, r.a, 1));           // weekday of the 1st
    int dom = 1 + ((r.c - wd1) % 7 + 7) % 7;                         // first such weekday
    dom += (r.b - 1) * 7;
    int len = kCum[lp][r.a] - kCum[lp][r.a - 1];
    while (dom > len) dom -= 7;  // week 5 = last
    day = first + dom - 1;
  }
  return day * 86400 + r.time;
}

// ---------------------------------------------------------------- O-ZONE ----
struct Info {
  int32_t off = 0;
  bool dst = false;
  std::string abbr;
  bool same(const Info& o) const { return off == o.off && dst == o.dst && abbr == o.abbr; }
};
inline std::string str(const Info& i) {
  return "(" + std::to_string(i.off) + "," + (i.dst ? "dst" : "std") + "," + i.abbr + ")";
}
struct Change {
  i128 T;
  Info before, after;
};

class Zone {
 public:
  TZif f;
  Posix px;
  // type in effect before the first recorded transition: type 0 (RFC 9636). For old-style files whose type 0 is a
  // daylight type in use, readers follow a convention instead; a monitor may set this after asking the library once.
  size_t before_first = 0;
  bool has_px = false;    // footer present, non-empty and parsed
  bool px_rules = false;  // footer generates transitions (dst, non-empty dst abbr, not all-year)
  bool px_allyear = false;
  std::string err;

  bool init(const std::string& bytes) {
    err = parse_tzif(bytes, &f);
    if (!err.empty()) return false;
    has_px = false;
    px_rules = false;
    px_allyear = false;
    if (f.has_footer && !f.footer.empty()) {
      if (!parse_posix(f.footer, &px)) {
        err = "footer does not parse";
        return false;
      }
      has_px = true;
      if (px.has_dst && !px.dst_abbr.empty()) {
        px_allyear = allyear();
        px_rules = !px_allyear;
      }
    }
    if (px_rules && f.times.empty()) {
      err = "rule footer without any recorded transition (outside the corpus domain)";
      return false;
    }
    offsets_.clear();
    for (auto& t : f.types) offsets_.insert(t.off);
    if (has_px) {
      offsets_.insert(px.std_off);
      if (px.has_dst && !px.dst_abbr.empty()) offsets_.insert(px.dst_off);
    }
    return true;
  }

  // instants of the two rule transitions of local year y
  i128 start_of(i128 y) const {
    return days_from_civil(y, 1, 1) * 86400 + rule_secs_in_year(y, px.start) - px.std_off;
  }
  i128 end_of(i128 y) const {
    return days_from_civil(y, 1, 1) * 86400 + rule_secs_in_year(y, px.end) - px.dst_off;
  }

  Info px_at(i128 t) const {
    Info std_i{px.std_off, false, px.std_abbr}, dst_i{px.dst_off, true, px.dst_abbr};
    if (!px.has_dst || px.dst_abbr.empty()) return std_i;
    if (px_allyear) return dst_i;
    i128 y = civ_from_secs(t + px.std_off).y;
    // latest event at or before t among the years y-1..y+1; at equal instants the end of DST
    // sorts first, so that a start at the same instant prevails
    std::vector<std::pair<i128, int>> ev;
    for (i128 yy = y - 1; yy <= y + 1; ++yy) {
      ev.push_back({end_of(yy), 0});
      ev.push_back({start_of(yy), 1});
    }
    std::sort(ev.begin(), ev.end());
    int kind = -1;
    for (auto& e : ev)
      if (e.first <= t) kind = e.second;
    if (kind < 0) {  // cannot happen for rules within +-167h of their year; be explicit
      kind = 0;
    }
    return kind == 1 ? dst_i : std_i;
  }

  Info type_info(size_t i) const { return Info{f.types[i].off, f.types[i].dst, f.types[i].abbr}; }

  Info at(i128 t) const {
    if (f.times.empty()) return has_px ? px_at(t) : type_info(0);
    if (t < f.times.front()) return type_info(before_first);
    if (t >= f.times.back()) {
      if (has_px) return px_at(t);
      return type_info(f.idx.back());
    }
    size_t k = std::upper_bound(f.times.begin(), f.times.end(), static_cast<int64_t>(t)) -
               f.times.begin();
    return type_info(f.idx[k - 1]);
  }

  // candidate breakpoints of at() within [lo, hi]
  void candidates(i128 lo, i128 hi, std::vector<i128>* out) const {
    if (!f.times.empty()) {
      int64_t l64 = clamp64(lo), h64 = clamp64(hi);
      auto a = std::lower_bound(f.times.begin(), f.times.end(), l64);
      auto b = std::upper_bound(f.times.begin(), f.times.end(), h64);
      for (; a < b; ++a) out->push_back(*a);
    }
    if (px_rules) {
      i128 last = f.times.empty() ? lo : (i128)f.times.back();
      i128 from = std::max(lo, last);
      if (from <= hi) {
        i128 y0 = civ_from_secs(from + px.std_off).y - 1;
        i128 y1 = civ_from_secs(hi + px.std_off).y + 1;
        for (i128 y = y0; y <= y1; ++y) {
          i128 s = start_of(y), e = end_of(y);
          if (s >= from && s <= hi) out->push_back(s);
          if (e >= from && e <= hi) out->push_back(e);
        }
      }
    }
    std::sort(out->begin(), out->end());
    out->erase(std::unique(out->begin(), out->end()), out->end());
  }

  // real changes (offset, dst flag or abbreviation differs) in [lo, hi]
  void changes(i128 lo, i128 hi, std::vector<Change>* out) const {
    std::vector<i128> c;
    candidates(lo, hi, &c);
    for (i128 T : c) {
      Info b = at(T - 1), a = at(T);
      if (!a.same(b)) out->push_back(Change{T, b, a});
    }
  }

  const std::set<int32_t>& offsets() const { return offsets_; }

  // civil -> instants. L = local seconds count of the civil time.
  enum Kind { UNIQUE = 0, SKIPPED = 1, REPEATED = 2, OUTSIDE_DOMAIN = 3 };
  struct CivAns {
    Kind kind;
    i128 pre, trans, post;
  };
  CivAns civil(i128 L) const {
    std::vector<i128> inst;
    for (int32_t o : offsets_) {
      i128 t = L - o;
      if (at(t).off == o) inst.push_back(t);
    }
    std::sort(inst.begin(), inst.end());
    CivAns r{OUTSIDE_DOMAIN, 0, 0, 0};
    if (inst.size() == 1) {
      r.kind = UNIQUE;
      r.pre = r.trans = r.post = inst[0];
      return r;
    }
    if (inst.size() > 2) return r;
    std::vector<Change> ch;
    changes(L - 4 * 86400, L + 4 * 86400, &ch);
    int found = 0;
    for (auto& c : ch) {
      i128 o1 = c.before.off, o2 = c.after.off;
      if (inst.empty()) {
        if (c.T + o1 <= L && L < c.T + o2) {
          ++found;
          r.kind = SKIPPED;
          r.trans = c.T;
          r.pre = L - o1;
          r.post = L - o2;
        }
      } else {
        if (c.T + o2 <= L && L < c.T + o1) {
          ++found;
          r.kind = REPEATED;
          r.trans = c.T;
          r.pre = L - o1;
          r.post = L - o2;
        }
      }
    }
    if (found != 1) r.kind = OUTSIDE_DOMAIN;
    if (r.kind == REPEATED && !(inst[0] == r.pre && inst[1] == r.post)) r.kind = OUTSIDE_DOMAIN;
    return r;
  }

 private:
  std::set<int32_t> offsets_;
  bool allyear() const {
    // DST the whole year, by meaning: every year's end coincides with the next year's start.
    for (i128 y = 1999; y < 1999 + 400; ++y)
      if (end_of(y) != start_of(y + 1)) return false;
    return true;
  }
};

}  // namespace orc

#endif  // VERIF_ORACLE_H_
