// C16: POSIX-TZ strings. Differential against O-POSIX (oracle.h): acceptance both ways, every
// meaningful field, determinism under two pre-fill patterns, and end-to-end as a TZif footer.
//   posixmon --seed N --tier quick|thorough --out DIR
#define VERIF_DEFINE_FACTORY
#include <cinttypes>
#include <sstream>

#include "cctz/time_zone.h"
#include "oracle.h"
#include "posixgen.h"
#include "sup.h"
#include "time_zone_posix.h"
#include "zsrc.h"

using orc::i128;
typedef cctz::time_point<cctz::seconds> tp_t;
static inline tp_t mk(int64_t t) { return tp_t(cctz::seconds(t)); }

static void prefill(cctz::PosixTimeZone* z, int byte) {
  memset(static_cast<void*>(&z->std_offset), byte, sizeof z->std_offset);
  memset(static_cast<void*>(&z->dst_offset), byte, sizeof z->dst_offset);
  memset(static_cast<void*>(&z->dst_start), byte, sizeof z->dst_start);
  memset(static_cast<void*>(&z->dst_end), byte, sizeof z->dst_end);
}
struct RuleView {
  int fmt;  // raw integer value of the enum, read without interpreting it
  long a, b, c;
  long time;
};
static RuleView view(const cctz::PosixTransition& t) {
  RuleView v{0, 0, 0, 0, 0};
  unsigned u = 0;
  static_assert(sizeof(t.date.fmt) == sizeof(u), "enum size");
  memcpy(&u, &t.date.fmt, sizeof u);
  v.fmt = static_cast<int>(u);
  if (u == cctz::PosixTransition::J) v.a = t.date.j.day;
  if (u == cctz::PosixTransition::N) v.a = t.date.n.day;
  if (u == cctz::PosixTransition::M) {
    v.a = t.date.m.month;
    v.b = t.date.m.week;
    v.c = t.date.m.weekday;
  }
  v.time = t.time.offset;
  return v;
}
static std::string rv_str(const RuleView& v) {
  std::ostringstream o;
  o << "{fmt=" << v.fmt << " " << v.a << "." << v.b << "." << v.c << " time=" << v.time << "}";
  return o.str();
}
static RuleView view(const orc::PRule& p) {
  RuleView v{0, 0, 0, 0, 0};
  v.fmt = p.kind == 'J' ? cctz::PosixTransition::J : p.kind == 'N' ? cctz::PosixTransition::N : cctz::PosixTransition::M;
  v.a = p.a;
  if (p.kind == 'M') {
    v.b = p.b;
    v.c = p.c;
  }
  v.time = p.time;
  return v;
}
static bool same(const RuleView& x, const RuleView& y) {
  return x.fmt == y.fmt && x.a == y.a && x.b == y.b && x.c == y.c && x.time == y.time;
}

// domain filter for the end-to-end leg: rule transitions alternate >= 20 days apart over a cycle
static bool rules_separated(const orc::Zone& z) {
  std::vector<std::pair<i128, int>> ev;
  for (i128 y = 1999; y < 1999 + 402; ++y) {
    ev.push_back({z.start_of(y), 1});
    ev.push_back({z.end_of(y), 0});
  }
  std::sort(ev.begin(), ev.end());
  for (size_t i = 1; i < ev.size(); ++i)
    if (ev[i].second == ev[i - 1].second || ev[i].first - ev[i - 1].first < 20 * 86400) return false;
  return true;
}

static void be32(std::string* s, int32_t v) {
  for (int i = 3; i >= 0; --i) s->push_back(static_cast<char>((static_cast<uint32_t>(v) >> (8 * i)) & 0xff));
}
static void be64(std::string* s, int64_t v) {
  for (int i = 7; i >= 0; --i) s->push_back(static_cast<char>((static_cast<uint64_t>(v) >> (8 * i)) & 0xff));
}
// TZif v3 with one transition at `when` to type `ti`; types given
static std::string make_tzif(const std::vector<orc::Info>& types, int64_t when, int ti, const std::string& footer) {
  std::string ab;
  std::vector<int> ai;
  for (auto& t : types) {
    ai.push_back(static_cast<int>(ab.size()));
    ab += t.abbr;
    ab.push_back('\0');
  }
  auto hdr = [&](std::string* s, int timecnt, int typecnt, int charcnt) {
    *s += "TZif3";
    s->append(15, '\0');
    be32(s, 0);
    be32(s, 0);
    be32(s, 0);
    be32(s, timecnt);
    be32(s, typecnt);
    be32(s, charcnt);
  };
  std::string s;
  hdr(&s, 0, 1, 1);
  be32(&s, 0);
  s.push_back(0);
  s.push_back(0);
  s.push_back(0);
  hdr(&s, 1, static_cast<int>(types.size()), static_cast<int>(ab.size()));
  be64(&s, when);
  s.push_back(static_cast<char>(ti));
  for (size_t i = 0; i < types.size(); ++i) {
    be32(&s, types[i].off);
    s.push_back(types[i].dst ? 1 : 0);
    s.push_back(static_cast<char>(ai[i]));
  }
  s += ab;
  s += "\n" + footer + "\n";
  return s;
}

struct Mon {
  sup::Ctx& ctx;
  long case_id;
  long serial = 0;
  bool cur_accept = false;  // model's verdict on the string handled last
  std::string last_ok;      // the accepted string handled last
  Mon(sup::Ctx& c, long id) : ctx(c), case_id(id) {}

  // a string followed, when it was rejected, by the accepted string handled before it: anything a rejected parse leaves
  // behind (a memo, a half-written scratch result) shows in the second answer
  void one_then_revisit(const std::string& s, const char* cls, bool e2e, bool revisit) {
    std::string before = last_ok;
    one(s, cls, e2e);
    if (revisit && !cur_accept && !before.empty()) {
      ctx.stat("C16.revisits_after_a_rejection");
      one(before, "revisit-after-rejection", false);
    }
  }

  void one(const std::string& s, const char* cls, bool e2e) {
    if (s.find('\0') != std::string::npos) return;  // outside the domain "rule string" (documented in DESIGN.md)
    orc::Posix ep;
    bool ea = orc::parse_posix(s, &ep);
    cur_accept = ea;
    if (ea) last_ok = s;
    ctx.set_case("class=%s op=ParsePosixSpec hex=%s", cls, sup::hexs(s).c_str());
    cctz::PosixTimeZone r0, r1;
    prefill(&r0, 0x00);
    prefill(&r1, 0xA5);
    bool g0 = cctz::ParsePosixSpec(s, &r0);
    bool g1 = cctz::ParsePosixSpec(s, &r1);
    ctx.stat("C16.evaluations");
    ctx.stat(std::string("C16.class.") + cls);
    if (ea) ctx.stat("C16.accepted_by_model");
    uint64_t h = sup::fnvs(s);
    ctx.distinct_local.insert(h);
    if (g0 != g1) {
      ctx.viol("C16", "acceptance-depends-on-prefill", "spec=" + s);
      return;
    }
    if (g0 != ea) {
      ctx.viol("C16", std::string(g0 ? "accepts-outside-grammar:" : "rejects-grammar-sentence:") + why(s, ep, ea), "spec='" + s + "'");
      return;
    }
    if (!ea) return;
    bool dst = ep.has_dst && !ep.dst_abbr.empty();
    if (dst) ctx.stat("C16.accepted_with_dst");
    for (const cctz::PosixTimeZone* r : {&r0, &r1}) {
      const char* which = r == &r0 ? "prefill00" : "prefillA5";
      if (r->std_abbr != ep.std_abbr || r->std_offset != ep.std_off) {
        ctx.viol("C16", "field:std", "spec='" + s + "' expected " + ep.std_abbr + " " + std::to_string(ep.std_off) + " got " +
                                         r->std_abbr + " " + std::to_string(r->std_offset) + " (" + which + ")");
      }
      if (!ep.has_dst) {
        if (!r->dst_abbr.empty()) ctx.viol("C16", "field:dst-abbr-not-empty", "spec='" + s + "'");
        continue;
      }
      if (r->dst_abbr != ep.dst_abbr) ctx.viol("C16", "field:dst-abbr", "spec='" + s + "' got " + r->dst_abbr);
      if (!dst) continue;
      if (r->dst_offset != ep.dst_off)
        ctx.viol("C16", "field:dst-offset", "spec='" + s + "' expected " + std::to_string(ep.dst_off) + " got " + std::to_string(r->dst_offset) + " (" + which + ")");
      RuleView gs = view(r->dst_start), ge = view(r->dst_end), es = view(ep.start), ee = view(ep.end);
      if (!same(gs, es))
        ctx.viol("C16", "field:dst-start", "spec='" + s + "' expected " + rv_str(es) + " got " + rv_str(gs) + " (" + which + ")");
      if (!same(ge, ee))
        ctx.viol("C16", "field:dst-end", "spec='" + s + "' expected " + rv_str(ee) + " got " + rv_str(ge) + " (" + which + ")");
    }
    if (e2e) end_to_end(s, ep, cls);
  }

  std::string why(const std::string& s, const orc::Posix&, bool) {
    // coarse input class for the violation key: which part of the sentence is missing
    int commas = 0;
    for (char c : s) commas += c == ',';
    return "commas=" + std::to_string(commas > 3 ? 3 : commas);
  }

  void end_to_end(const std::string& s, const orc::Posix& ep, const char* cls) {
    // the same string as the footer of a TZif file: types = std (+ dst), one transition at 2001-01-01
    bool dst = ep.has_dst && !ep.dst_abbr.empty();
    if (std::abs(ep.std_off) >= 86400 || (dst && std::abs(ep.dst_off) >= 86400)) return;  // TZif types must be within 24h
    // the standard designation comes first in the table and stays short; the daylight one is last and may be long
    if (ep.std_abbr.empty() || ep.std_abbr.size() > 40 || ep.dst_abbr.size() > 1200) return;
    std::vector<orc::Info> types;
    types.push_back(orc::Info{ep.std_off, false, ep.std_abbr});
    if (dst) {
      if (ep.dst_abbr == ep.std_abbr && ep.dst_off == ep.std_off) return;
      types.push_back(orc::Info{ep.dst_off, true, ep.dst_abbr});
    }
    int64_t when = 978307200;  // 2001-01-01T00:00:00Z
    // consistent last transition: the type the footer itself assigns there; for rule footers the
    // body ends at one of the footer's own transitions (as in files written by zic)
    orc::Zone probe;
    std::string tmp = make_tzif(types, when, 0, s);
    if (!probe.init(tmp)) return;
    if (probe.px_rules && !rules_separated(probe)) {
      ctx.stat("C16.e2e_skipped_rules_too_close");
      return;
    }
    if (probe.px_rules) when = static_cast<int64_t>((serial & 1) ? probe.start_of(2001) : probe.end_of(2001));
    orc::Info at = probe.px_at(when);
    int ti = (dst && at.dst) ? 1 : 0;
    std::string bytes = make_tzif(types, when, ti, s);
    orc::Zone Z;
    if (!Z.init(bytes)) return;
    std::string name = "V/C16/" + std::to_string(case_id) + "/" + std::to_string(serial++);
    zsrc::put(name, bytes);
    cctz::time_zone tz;
    ctx.set_case("class=%s op=load-as-footer hex=%s", cls, sup::hexs(s).c_str());
    bool ok = cctz::load_time_zone(name, &tz);
    zsrc::erase(name);
    ctx.stat("C16.evaluations");
    ctx.stat("C16.e2e_loads");
    if (!ok) {
      ctx.viol("C16", "e2e-load-failed", "footer='" + s + "'");
      return;
    }
    for (i128 y = 2001; y <= 2003; ++y) {
      std::vector<i128> ts = {orc::days_from_civil(y, 1, 1) * 86400 + 5, orc::days_from_civil(y, 7, 1) * 86400};
      if (Z.px_rules) {
        for (i128 b : {Z.start_of(y), Z.end_of(y)}) {
          ts.push_back(b - 1);
          ts.push_back(b);
        }
      }
      for (i128 t : ts) {
        if (t < when) continue;
        auto al = tz.lookup(mk(static_cast<int64_t>(t)));
        orc::Info e = Z.at(t);
        ctx.stat("C16.evaluations");
        ctx.stat("C16.e2e_lookups");
        if (al.offset != e.off || al.is_dst != e.dst || e.abbr != al.abbr) {
          std::ostringstream d;
          d << "footer='" << s << "' t=" << orc::str(t) << " expected " << orc::str(e) << " got (" << al.offset << "," << al.is_dst << "," << al.abbr << ")";
          ctx.viol("C16", "e2e-lookup", d.str());
          return;
        }
      }
    }
  }
};

int main(int argc, char** argv) {
  sup::Args a(argc, argv);
  bool thorough = a.get("tier", "quick") == "thorough";
  uint64_t seed = static_cast<uint64_t>(a.getl("seed", 0));
  sup::Options opt = sup::options_from(a);
  long total = a.getl("n", thorough ? 40000000 : 3000000);
  const long chunk = 5000;
  long ncases = (total + chunk - 1) / chunk;
  // fixed boundary panel, case 0
  return sup::supervise(ncases, opt, [&](long c, sup::Ctx& ctx) {
    sup::Rng rng(seed, static_cast<uint64_t>(c) + 1000);
    Gen g(rng);
    Mon m(ctx, c);
    if (c == 0) {
      const char* panel[] = {"EST5EDT,M3.2.0,M11.1.0", "EST5EDT,M3.2.0", "EST5EDT", "EST5EDT4", "EST5EDT4,M3.2.0/2,M11.1.0/2", "<+03>-3<+04>-4",
                             "EST5", "EST24", "EST25", "EST-24", "EST+24:59:59", "EST24:60", "EST5EDT,J1,J365", "EST5EDT,J0,J365", "EST5EDT,J1,J366",
                             "EST5EDT,0,365", "EST5EDT,0,366", "EST5EDT,M0.1.0,M1.1.0", "EST5EDT,M13.1.0,M1.1.0", "EST5EDT,M1.0.0,M2.1.0",
                             "EST5EDT,M1.6.0,M2.1.0", "EST5EDT,M1.5.7,M2.1.0", "EST5EDT,M1.5.6/167,M7.1.0/-167", "EST5EDT,M1.5.6/168,M7.1.0",
                             "EST5EDT,M1.5.6/-168,M7.1.0", "EST5EDT,M1.5.6/167:59:59,M7.1.0/-167:59:59", "EST5EDT,M1.5.6/1:60,M7.1.0",
                             "ES5", "E5", "<>5", "<E>5", "EST5<>,0,1", "<+00>0<+01>,0/0,J365/25", "XXX3YYY2,0/0,J365/25", ":EST5", "EST5 ", " EST5",
                             "EST5EDT,M3.2.0,M11.1.0,M1.1.1", "EST5EDT,M3.2.0,M11.1.0 ", "EST5EDT,M3.2.0,M11.1.0/", "EST5EDT,M3.2,M11.1.0",
                             "EST5EDT,M3,M11.1.0", "EST5EDT,,", "EST5EDT,", "EST5,M3.2.0,M11.1.0", "EST", "", "5", "EST+-5", "EST5EDT+4,M3.2.0,M11.1.0",
                             "IST-1IWT0,0/0,J182/0", "EST5EDT,M3.2.0/+2,M11.1.0/-1", "EST05:00:00EDT04:00:00,M03.02.00/02:00:00,M011.01.00/002:00:00",
                             "EST5EDT,J60/0,J59/0", "AAA0BBB,1/0,2/0", "EST5EDT4:30:30,100/3:4:5,J200/-0:0:1"};
      for (const char* p : panel) m.one(p, "panel", true);
      // long footers (a long quoted daylight designation): total lengths around 255/256, 511/512, 1023/1024
      for (int len : {100, 200, 236, 237, 238, 239, 240, 241, 242, 243, 244, 245, 300, 490, 491, 492, 493, 494, 495, 496, 497, 498, 499, 500, 700, 1000, 1003, 1004, 1005, 1006}) {
        std::string longd(static_cast<size_t>(len), 'D');
        for (size_t i = 0; i < longd.size(); ++i) longd[i] = static_cast<char>('A' + (i * 7) % 26);
        m.one("STD5<" + longd + ">,M3.2.0,M11.1.0", "long-designation", true);
        m.one("<ST" + std::to_string(len) + ">-3:30<" + longd + ">-4:30,J60/1,300/3", "long-designation", true);
      }
    }
    for (long i = 0; i < chunk; ++i) {
      int k = (int)rng.range(0, 9);
      if (k <= 4) {
        m.one_then_revisit(g.sentence(), "sentence", i % 8 == 0, i % 3 == 0);
      } else if (k <= 8) {
        m.one_then_revisit(g.mutate(g.sentence()), "mutant", i % 8 == 0, i % 3 == 0);
      } else {
        m.one_then_revisit(g.random_bytes(), "random", false, i % 3 == 0);
      }
    }
    ctx.stat("C16.distinct_nontrivial", ctx.distinct_local.size());
    if (c % 31 == 0) {
      std::string s = g.sentence();
      orc::Posix ep;
      bool ea = orc::parse_posix(s, &ep);
      cctz::PosixTimeZone r;
      bool ga = cctz::ParsePosixSpec(s, &r);
      ctx.sample("C16", "spec='" + s + "' model=" + (ea ? "accept" : "reject") + " cctz=" + (ga ? "accept" : "reject"), 2);
    }
  });
}
