// In-memory zone data source + a strong definition of
// cctz_extension::zone_info_source_factory (the documented extension point).
//
// Registered names are served from the registry; unregistered names beginning with "V/" are not
// found (the fallback is NOT consulted); every other name goes to the fallback (file) factory.
// Every factory invocation and every Read/Skip is logged for the C14/C20 monitors.
#ifndef VERIF_ZSRC_H_
#define VERIF_ZSRC_H_

#include <algorithm>
#include <atomic>
#include <cstring>
#include <fstream>
#include <functional>
#include <map>
#include <memory>
#include <mutex>
#include <sstream>
#include <string>
#include <thread>
#include <vector>

#include "cctz/zone_info_source.h"

namespace zsrc {

struct Event {
  uint64_t seq;
  int kind;  // 0 factory-enter, 1 factory-exit, 2 read, 3 skip, 10 load-call-begin, 11 load-call-end (harness)
  std::thread::id tid;
  std::string name;
};

struct State {
  std::mutex mu;
  std::map<std::string, std::shared_ptr<const std::string>> reg;
  std::vector<Event> log;                 // events of threads without a thread-local log
  std::vector<std::vector<Event>*> tlogs;  // registered thread-local logs
  std::atomic<uint64_t> seq{0};
  std::atomic<bool> logging{false};
  // frozen: the registry is not written while set, so readers take no lock. Together with the
  // thread-local logs this keeps the monitor from adding synchronisation between the loader's
  // critical sections (which would hide races from ThreadSanitizer).
  std::atomic<bool> frozen{false};
  std::atomic<long> factory_calls{0};
  std::atomic<long> reads{0};
  // optional gate called inside the factory (between the loader's critical sections)
  std::function<void(const std::string&)> gate;
};
inline State& st() {
  static State* s = new State;
  return *s;
}
inline std::vector<Event>*& tlog() {
  static thread_local std::vector<Event>* p = nullptr;
  return p;
}
// Call at thread start (before the racy part) to give the thread its own event log.
inline void thread_log_init() {
  if (tlog()) return;
  auto* v = new std::vector<Event>;
  v->reserve(4096);
  tlog() = v;
  std::lock_guard<std::mutex> l(st().mu);
  st().tlogs.push_back(v);
}
// Merge all logs ordered by sequence number (call when no thread is logging).
inline std::vector<Event> collect_log(bool clear = true) {
  State& s = st();
  std::lock_guard<std::mutex> l(s.mu);
  std::vector<Event> all = s.log;
  for (auto* v : s.tlogs) all.insert(all.end(), v->begin(), v->end());
  std::sort(all.begin(), all.end(), [](const Event& a, const Event& b) { return a.seq < b.seq; });
  if (clear) {
    s.log.clear();
    for (auto* v : s.tlogs) v->clear();
  }
  return all;
}

inline void put(const std::string& name, const std::string& bytes) {
  std::lock_guard<std::mutex> l(st().mu);
  st().reg[name] = std::make_shared<const std::string>(bytes);
}
inline void put_shared(const std::string& name, std::shared_ptr<const std::string> bytes) {
  std::lock_guard<std::mutex> l(st().mu);
  st().reg[name] = bytes;
}
inline void erase(const std::string& name) {
  std::lock_guard<std::mutex> l(st().mu);
  st().reg.erase(name);
}
inline void log_event(int kind, const std::string& name) {
  State& s = st();
  if (!s.logging.load(std::memory_order_relaxed)) return;
  Event e{s.seq.fetch_add(1, std::memory_order_relaxed), kind, std::this_thread::get_id(), name};
  if (auto* v = tlog()) {
    v->push_back(std::move(e));
    return;
  }
  std::lock_guard<std::mutex> l(s.mu);
  s.log.push_back(std::move(e));
}

class MemSource : public cctz::ZoneInfoSource {
 public:
  MemSource(std::string name, std::shared_ptr<const std::string> d)
      : name_(std::move(name)), d_(std::move(d)), pos_(0) {}
  std::size_t Read(void* ptr, std::size_t size) override {
    st().reads.fetch_add(1, std::memory_order_relaxed);
    log_event(2, name_);
    std::size_t n = std::min(size, d_->size() - pos_);
    if (n) memcpy(ptr, d_->data() + pos_, n);
    pos_ += n;
    return n;
  }
  int Skip(std::size_t offset) override {
    log_event(3, name_);
    if (offset > d_->size() - pos_) {
      pos_ = d_->size();
      return -1;  // like fseek past the data of a bounded source
    }
    pos_ += offset;
    return 0;
  }
  std::string Version() const override { return std::string(); }

 private:
  std::string name_;
  std::shared_ptr<const std::string> d_;
  std::size_t pos_;
};

inline std::unique_ptr<cctz::ZoneInfoSource> Factory(
    const std::string& name,
    const std::function<std::unique_ptr<cctz::ZoneInfoSource>(const std::string&)>& fallback) {
  State& s = st();
  s.factory_calls.fetch_add(1, std::memory_order_relaxed);
  log_event(0, name);
  std::shared_ptr<const std::string> bytes;
  bool ours = name.compare(0, 2, "V/") == 0;
  if (s.frozen.load(std::memory_order_relaxed)) {
    auto it = s.reg.find(name);
    if (it != s.reg.end()) bytes = it->second;
  } else {
    std::lock_guard<std::mutex> l(s.mu);
    auto it = s.reg.find(name);
    if (it != s.reg.end()) bytes = it->second;
  }
  const std::function<void(const std::string&)>& gate = s.gate;  // set before threads start
  if (gate) gate(name);
  std::unique_ptr<cctz::ZoneInfoSource> r;
  if (bytes) {
    r.reset(new MemSource(name, bytes));  // any registered name, whatever its shape
  } else if (ours) {
    // not found; the fallback is not consulted
  } else {
    r = fallback(name);
  }
  log_event(1, name);
  return r;
}

inline bool read_file(const std::string& path, std::string* out) {
  std::ifstream f(path, std::ios::binary);
  if (!f) return false;
  std::ostringstream ss;
  ss << f.rdbuf();
  *out = ss.str();
  return true;
}

}  // namespace zsrc

#ifdef VERIF_DEFINE_FACTORY
namespace cctz_extension {
ZoneInfoSourceFactory zone_info_source_factory = zsrc::Factory;
}  // namespace cctz_extension
#endif

#endif  // VERIF_ZSRC_H_
