// In-memory zone data source + a strong definition of
// cctz_extension::zone_info_source_factory (the documented extension point).
//
// Names beginning with "V/" are served from the registry (missing -> not found, the fallback
// is NOT consulted); every other name goes to the fallback (file) factory.
// Every factory invocation and every Read/Skip is logged for the C14/C20 monitors.
#ifndef VERIF_ZSRC_H_
#define VERIF_ZSRC_H_

#include <atomic>
#include <fstream>
#include <functional>
#include <map>
#include <memory>
#include <mutex>
#include <sstream>
#include <string>
#include <thread>
#include <vector>

#include "cctz/zone_info_source.h"

namespace zsrc {

struct Event {
  uint64_t seq;
  int kind;  // 0 factory-enter, 1 factory-exit, 2 read, 3 skip
  std::thread::id tid;
  std::string name;
};

struct State {
  std::mutex mu;
  std::map<std::string, std::shared_ptr<const std::string>> reg;
  std::vector<Event> log;
  uint64_t seq = 0;
  bool logging = false;
  std::atomic<long> factory_calls{0};
  std::atomic<long> reads{0};
  // optional gate called inside the factory (between the loader's critical sections)
  std::function<void(const std::string&)> gate;
  // when set, any factory call is a monitor violation (C15: fixed names need no data)
  std::atomic<long> forbidden_calls{0};
  bool forbid = false;
};
inline State& st() {
  static State* s = new State;
  return *s;
}

inline void put(const std::string& name, const std::string& bytes) {
  std::lock_guard<std::mutex> l(st().mu);
  st().reg[name] = std::make_shared<const std::string>(bytes);
}
inline void put_shared(const std::string& name, std::shared_ptr<const std::string> bytes) {
  std::lock_guard<std::mutex> l(st().mu);
  st().reg[name] = bytes;
}
inline void erase(const std::string& name) {
  std::lock_guard<std::mutex> l(st().mu);
  st().reg.erase(name);
}
inline void log_event(int kind, const std::string& name) {
  State& s = st();
  std::lock_guard<std::mutex> l(s.mu);
  if (!s.logging) return;
  s.log.push_back(Event{s.seq++, kind, std::this_thread::get_id(), name});
}

class MemSource : public cctz::ZoneInfoSource {
 public:
  MemSource(std::string name, std::shared_ptr<const std::string> d)
      : name_(std::move(name)), d_(std::move(d)), pos_(0) {}
  std::size_t Read(void* ptr, std::size_t size) override {
    st().reads++;
    log_event(2, name_);
    std::size_t n = std::min(size, d_->size() - pos_);
    if (n) memcpy(ptr, d_->data() + pos_, n);
    pos_ += n;
    return n;
  }
  int Skip(std::size_t offset) override {
    log_event(3, name_);
    if (offset > d_->size() - pos_) {
      pos_ = d_->size();
      return -1;  // like fseek past the data of a bounded source
    }
    pos_ += offset;
    return 0;
  }
  std::string Version() const override { return std::string(); }

 private:
  std::string name_;
  std::shared_ptr<const std::string> d_;
  std::size_t pos_;
};

inline std::unique_ptr<cctz::ZoneInfoSource> Factory(
    const std::string& name,
    const std::function<std::unique_ptr<cctz::ZoneInfoSource>(const std::string&)>& fallback) {
  State& s = st();
  s.factory_calls++;
  if (s.forbid) s.forbidden_calls++;
  log_event(0, name);
  std::function<void(const std::string&)> gate;
  std::shared_ptr<const std::string> bytes;
  bool ours = name.compare(0, 2, "V/") == 0;
  {
    std::lock_guard<std::mutex> l(s.mu);
    gate = s.gate;
    auto it = s.reg.find(name);
    if (it != s.reg.end()) bytes = it->second;
  }
  if (gate) gate(name);
  std::unique_ptr<cctz::ZoneInfoSource> r;
  if (ours) {
    if (bytes) r.reset(new MemSource(name, bytes));
  } else {
    r = fallback(name);
  }
  log_event(1, name);
  return r;
}

inline bool read_file(const std::string& path, std::string* out) {
  std::ifstream f(path, std::ios::binary);
  if (!f) return false;
  std::ostringstream ss;
  ss << f.rdbuf();
  *out = ss.str();
  return true;
}

}  // namespace zsrc

#ifdef VERIF_DEFINE_FACTORY
namespace cctz_extension {
ZoneInfoSourceFactory zone_info_source_factory = zsrc::Factory;
}  // namespace cctz_extension
#endif

#endif  // VERIF_ZSRC_H_
