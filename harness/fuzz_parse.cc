// libFuzzer target (C09): input = format \0 text ; reference-parser differential inside the target
#include <cstring>
#include "cctz/time_zone.h"
#include "fmtmodel.h"
extern "C" int LLVMFuzzerTestOneInput(const uint8_t* data, size_t size) {
  const uint8_t* nul = static_cast<const uint8_t*>(memchr(data, 0, size));
  if (!nul) return 0;
  std::string fmt(reinterpret_cast<const char*>(data), static_cast<size_t>(nul - data));
  std::string in(reinterpret_cast<const char*>(nul + 1), size - static_cast<size_t>(nul - data) - 1);
  if (in.find('\0') != std::string::npos) return 0;
  static const cctz::time_zone tz = cctz::fixed_time_zone(cctz::seconds(-12345));
  cctz::time_point<cctz::seconds> tp;
  cctz::detail::femtoseconds fs;
  bool ok = cctz::detail::parse(fmt, in, tz, &tp, &fs);
  fm::ParseRes m = fm::model_parse(fmt, in);
  if (m.st == fm::ParseRes::OUTSIDE_MODEL) return 0;
  bool m_ok = m.st == fm::ParseRes::ACCEPT;
  orc::i128 mt = m.t;
  if (m_ok && !m.has_offset) {
    mt = m.L + 12345;
    if (!orc::fits64(mt)) m_ok = false;
  }
  if (ok != m_ok) __builtin_trap();
  if (ok && ((orc::i128)tp.time_since_epoch().count() != mt || (orc::i128)fs.count() != m.fs)) __builtin_trap();
  return 0;
}
