// ThreadSanitizer (gcc 12) does not intercept pthread_mutex_clocklock, which libstdc++ uses for
// std::timed_mutex::try_lock_for/until: the lock is invisible to it and the later unlock is reported as "unlock of an
// unlocked mutex" (and no happens-before edge is recorded). This interposer tells it about the lock, so that code
// using timed locks is neither falsely reported nor under-synchronised in its eyes. Only compiled into TSan builds.
#ifndef VERIF_TSAN_TIMEDLOCK_H_
#define VERIF_TSAN_TIMEDLOCK_H_
#if defined(__SANITIZE_THREAD__)
#include <dlfcn.h>
#include <pthread.h>
#include <sanitizer/tsan_interface.h>
#include <time.h>

extern "C" int pthread_mutex_clocklock(pthread_mutex_t* m, clockid_t clock, const struct timespec* abstime) {
  typedef int (*fn_t)(pthread_mutex_t*, clockid_t, const struct timespec*);
  static fn_t real = reinterpret_cast<fn_t>(dlsym(RTLD_NEXT, "pthread_mutex_clocklock"));
  __tsan_mutex_pre_lock(m, __tsan_mutex_try_lock);
  int rc = real(m, clock, abstime);
  __tsan_mutex_post_lock(m, rc == 0 ? __tsan_mutex_try_lock : (__tsan_mutex_try_lock | __tsan_mutex_try_lock_failed), 0);
  return rc;
}
#endif
#endif  // VERIF_TSAN_TIMEDLOCK_H_
