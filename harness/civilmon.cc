// Civil-time monitors: C04 (normalisation), C05 (arithmetic/difference/order), C17 (weekday,
// yearday, next/prev weekday). Oracle: O-CAL on __int128 (oracle.h). UBSan is the
// "no avoidable overflow" detector: arguments are vetted in 128-bit before every call, so any
// report is a violation.
//   civilmon --prop C04|C05|C17 --seed N --tier quick|thorough --out DIR
#include <cinttypes>
#include <sstream>
#include <unordered_set>

#include "cctz/civil_time.h"
#include "oracle.h"
#include "sup.h"

using orc::Civ;
using orc::i128;

static std::string S(i128 v) { return orc::str(v); }

template <typename T>
struct Al;
template <>
struct Al<cctz::civil_second> {
  static const int lvl = 0;
  static const char* name() { return "second"; }
};
template <>
struct Al<cctz::civil_minute> {
  static const int lvl = 1;
  static const char* name() { return "minute"; }
};
template <>
struct Al<cctz::civil_hour> {
  static const int lvl = 2;
  static const char* name() { return "hour"; }
};
template <>
struct Al<cctz::civil_day> {
  static const int lvl = 3;
  static const char* name() { return "day"; }
};
template <>
struct Al<cctz::civil_month> {
  static const int lvl = 4;
  static const char* name() { return "month"; }
};
template <>
struct Al<cctz::civil_year> {
  static const int lvl = 5;
  static const char* name() { return "year"; }
};

static Civ align(Civ c, int lvl) {
  if (lvl >= 1) c.S = 0;
  if (lvl >= 2) c.M = 0;
  if (lvl >= 3) c.H = 0;
  if (lvl >= 4) c.d = 1;
  if (lvl >= 5) c.m = 1;
  return c;
}
template <typename T>
static Civ get(const T& t) {
  return Civ{(i128)t.year(), t.month(), t.day(), t.hour(), t.minute(), t.second()};
}
template <typename T>
static T make(const Civ& c) {
  if (!orc::fits64(c.y)) {
    fprintf(stderr, "harness bug: year outside int64 passed to make()\n");
    _exit(98);
  }
  return T(static_cast<int64_t>(c.y), c.m, c.d, c.H, c.M, c.S);
}
// index of a civil time in units of its alignment
static i128 unit_index(const Civ& c, int lvl) {
  switch (lvl) {
    case 0: return orc::secs_from_civ(c);
    case 1: return orc::fdiv(orc::secs_from_civ(c), 60);
    case 2: return orc::fdiv(orc::secs_from_civ(c), 3600);
    case 3: return orc::days_from_civil(c.y, c.m, c.d);
    case 4: return c.y * 12 + (c.m - 1);
    default: return c.y;
  }
}
static Civ from_index(i128 idx, int lvl) {
  switch (lvl) {
    case 0: return orc::civ_from_secs(idx);
    case 1: return orc::civ_from_secs(idx * 60);
    case 2: return orc::civ_from_secs(idx * 3600);
    case 3: return orc::civ_from_secs(idx * 86400);
    case 4: {
      i128 y = orc::fdiv(idx, 12);
      return Civ{y, static_cast<int>(idx - y * 12) + 1, 1, 0, 0, 0};
    }
    default: return Civ{idx, 1, 1, 0, 0, 0};
  }
}

struct Args6 {
  i128 y, m, d, H, M, S;
};
static std::string str6(const Args6& a) {
  return "(" + S(a.y) + "," + S(a.m) + "," + S(a.d) + "," + S(a.H) + "," + S(a.M) + "," + S(a.S) + ")";
}

struct Mon {
  sup::Ctx& ctx;
  sup::Rng rng;
  std::unordered_set<uint64_t> nt;
  Mon(sup::Ctx& c, uint64_t seed, uint64_t stream) : ctx(c), rng(seed, stream) {}

  // ---------------------------------------------------------------- C04
  // precondition of the statement, decided in 128-bit before the call
  static bool c04_in_bound(const Args6& a, Civ* out) {
    for (i128 v : {a.y, a.m, a.d, a.H, a.M, a.S})
      if (!orc::fits64(v)) return false;
    i128 ycarry = a.y + orc::fdiv(a.m - 1, 12);
    if (!orc::fits64(ycarry)) return false;
    Civ n = orc::normalize(a.y, a.m, a.d, a.H, a.M, a.S);
    if (!orc::fits64(n.y)) return false;
    *out = n;
    return true;
  }
  template <typename T>
  void c04_one(const Args6& a, const Civ& n, const char* src) {
    Civ e = align(n, Al<T>::lvl);
    ctx.set_case("class=%s op=civil_%s%s", src, Al<T>::name(), str6(a).c_str());
    T t(static_cast<int64_t>(a.y), static_cast<int64_t>(a.m), static_cast<int64_t>(a.d),
        static_cast<int64_t>(a.H), static_cast<int64_t>(a.M), static_cast<int64_t>(a.S));
    Civ g = get(t);
    ctx.stat("C04.evaluations");
    if (g != e) {
      ctx.viol("C04", std::string("normalize:") + Al<T>::name() + ":" + src,
               std::string("civil_") + Al<T>::name() + str6(a) + " expected " + orc::str(e) + " got " + orc::str(g));
    }
    bool range_ok = g.m >= 1 && g.m <= 12 && g.d >= 1 && g.d <= orc::month_len(g.y, g.m) && g.H >= 0 && g.H <= 23 &&
                    g.M >= 0 && g.M <= 59 && g.S >= 0 && g.S <= 59;
    if (!range_ok) ctx.viol("C04", std::string("accessor-range:") + Al<T>::name(), str6(a) + " -> " + orc::str(g));
    // the same fields through the shorter constructor forms, wherever the omitted fields have their default values
    const int64_t y = static_cast<int64_t>(a.y), m = static_cast<int64_t>(a.m), d = static_cast<int64_t>(a.d), H = static_cast<int64_t>(a.H),
                  M = static_cast<int64_t>(a.M);
    auto arity = [&](int k, const T& tk) {
      ctx.stat("C04.evaluations");
      ctx.stat("C04.default_argument_forms");
      if (get(tk) != e)
        ctx.viol("C04", std::string("normalize-default-args:") + Al<T>::name() + ":" + std::to_string(k) + "-fields",
                 std::string("civil_") + Al<T>::name() + " from the first " + std::to_string(k) + " of " + str6(a) + " expected " + orc::str(e) + " got " + orc::str(get(tk)));
    };
    if (a.S == 0) {
      arity(5, T(y, m, d, H, M));
      if (a.M == 0) {
        arity(4, T(y, m, d, H));
        if (a.H == 0) {
          arity(3, T(y, m, d));
          if (a.d == 1) {
            arity(2, T(y, m));
            if (a.m == 1) arity(1, T(y));
          }
        }
      }
    }
  }
  void c04_all(const Args6& a, const char* src) {
    Civ n;
    if (!c04_in_bound(a, &n)) {
      ctx.stat("C04.skipped_outside_bound");
      return;
    }
    int oor = (a.m < 1 || a.m > 12) + (a.d < 1 || a.d > 28) + (a.H < 0 || a.H > 23) + (a.M < 0 || a.M > 59) +
              (a.S < 0 || a.S > 59);
    if (oor >= 2) {
      uint64_t h = sup::mix(sup::mix(sup::mix(sup::mix(sup::mix((uint64_t)a.y, (uint64_t)a.m), (uint64_t)a.d), (uint64_t)a.H), (uint64_t)a.M), (uint64_t)a.S);
      nt.insert(h);
    }
    c04_one<cctz::civil_second>(a, n, src);
    c04_one<cctz::civil_minute>(a, n, src);
    c04_one<cctz::civil_hour>(a, n, src);
    c04_one<cctz::civil_day>(a, n, src);
    c04_one<cctz::civil_month>(a, n, src);
    c04_one<cctz::civil_year>(a, n, src);
  }
  // overlays on a base day
  void c04_overlays(i128 y, int m, int d) {
    static const long kD[] = {0, -1, 1, -27, 28, 29, 30, 31, 32, -364, -365, -366, 364, 365, 366, 367, 730, -730, 1460, 1461, -1461,
                              36524, 36525, -36524, -36525, 146096, 146097, 146098, -146096, -146097, -146098, 292194};
    static const long kM[] = {-1, 1, -11, 11, -12, 12, -13, 13, 24, -24, 36, 4800, -4800, 1200001};
    static const long kH[] = {-1, 24, -24, 25, 8760, -8784, 3506328, -3506329};
    static const long kN[] = {-1, 60, -60, 61, 1440, -1441, 525600};
    static const long kS[] = {-1, 60, -60, 86399, 86400, -86400, -86401, 31536000, -31622400};
    for (long k : kD) c04_all(Args6{y, m, d + k, 0, 0, 0}, "cycle-day");
    for (long k : kM) c04_all(Args6{y, m + k, d, 0, 0, 0}, "cycle-month");
    for (long k : kH) c04_all(Args6{y, m, d, k, 0, 0}, "cycle-hour");
    for (long k : kN) c04_all(Args6{y, m, d, 0, k, 0}, "cycle-minute");
    for (long k : kS) c04_all(Args6{y, m, d, 23, 59, 59 + k}, "cycle-second");
    // a landmark day count reached only together with the whole-day carry of the time-of-day fields
    for (long K : {365L, 366L, 1461L, 36524L, 36525L, 146097L, 292194L}) {
      c04_all(Args6{y, m, -K + 1, -1, 0, 0}, "cycle-carry");
      c04_all(Args6{y, m, -K - 1, 24, 0, 0}, "cycle-carry");
      c04_all(Args6{y, m, K - 1, 23, 59, 60}, "cycle-carry");
      c04_all(Args6{y, m, d - K + 1, 0, -1, 0}, "cycle-carry");
      c04_all(Args6{y, m, d + K - 1, 0, 1440, 0}, "cycle-carry");
    }
    // two and three fields at once
    c04_all(Args6{y, m + 13, d - 366, 25, -61, 3661}, "cycle-mixed");
    c04_all(Args6{y, m - 25, d + 146097, -49, 1500, -90000}, "cycle-mixed");
  }
  i128 rnd_field(int mode) {
    switch (mode) {
      case 0: return rng.range(-100, 100);
      case 1: return rng.range(-100000, 100000);
      case 2: return (int64_t)rng.next();
      case 3: return orc::I64MAX - (rng.chance(0.15) ? 0 : rng.range(0, 1000));
      case 4: return orc::I64MIN + (rng.chance(0.15) ? 0 : rng.range(0, 1000));
      case 5: {
        int bits = (int)rng.range(1, 63);
        int64_t v = (int64_t)(rng.next() >> (64 - bits));
        return rng.chance(0.5) ? -(i128)v : (i128)v;
      }
      default: return rng.range(0, 59);
    }
  }
  void c04_random(long n) {
    for (long i = 0; i < n; ++i) {
      Args6 a;
      int ym = (int)rng.range(0, 5);
      a.y = rnd_field(ym);
      // keep the normalized year in range often: balance big fields against the year
      a.m = rnd_field((int)rng.range(0, 6));
      a.d = rnd_field((int)rng.range(0, 6));
      a.H = rnd_field((int)rng.range(0, 6));
      a.M = rnd_field((int)rng.range(0, 6));
      a.S = rnd_field((int)rng.range(0, 6));
      if (rng.chance(0.3)) {
        // months that are multiples of 12 (and neighbours) at the year limits
        i128 q = rng.range(-1000, 1000);
        a.m = q * 12 + rng.range(-1, 1);
        a.y = (rng.chance(0.5) ? orc::I64MAX : orc::I64MIN) - orc::fdiv(a.m - 1, 12) + rng.range(-2, 2);
        if (rng.chance(0.7)) {
          a.d = rng.range(1, 28);
          a.H = rng.range(0, 23);
          a.M = rng.range(0, 59);
          a.S = rng.range(0, 59);
        }
      }
      if (rng.chance(0.2)) {
        // compensate a huge day/hour/minute/second count so that the year lands near a limit
        Civ n = orc::normalize(0, 1, a.d, a.H, a.M, a.S);
        i128 target = rng.chance(0.5) ? orc::I64MAX - rng.range(0, 2) : orc::I64MIN + rng.range(0, 2);
        a.m = rng.range(1, 12);
        a.y = target - n.y;
      }
      if (rng.chance(0.25)) {
        // trailing fields at their default values, so that the shorter constructor forms apply
        switch (rng.range(0, 4)) {
          case 0: a.m = 1; [[fallthrough]];
          case 1: a.d = 1; [[fallthrough]];
          case 2: a.H = 0; [[fallthrough]];
          case 3: a.M = 0; [[fallthrough]];
          default: a.S = 0; break;
        }
      }
      c04_all(a, "random");
    }
  }
  template <typename A, typename B>
  void c04_conv(const A& a) {
    B b(a);
    ctx.stat("C04.evaluations");
    ctx.stat("C04.cross_alignment_conversions");
    Civ e = align(get(a), Al<B>::lvl);
    if (get(b) != e)
      ctx.viol("C04", std::string("conversion:") + Al<A>::name() + "->" + Al<B>::name(),
               orc::str(get(a)) + " expected " + orc::str(e) + " got " + orc::str(get(b)));
  }
  template <typename A>
  void c04_conv_from(const Civ& c) {
    A a = make<A>(c);
    c04_conv<A, cctz::civil_second>(a);
    c04_conv<A, cctz::civil_minute>(a);
    c04_conv<A, cctz::civil_hour>(a);
    c04_conv<A, cctz::civil_day>(a);
    c04_conv<A, cctz::civil_month>(a);
    c04_conv<A, cctz::civil_year>(a);
    // stream output
    std::ostringstream os;
    os << a;
    Civ g = get(a);
    char buf[64];
    std::string e = S(g.y);
    if (Al<A>::lvl <= 4) { snprintf(buf, sizeof buf, "-%02d", g.m); e += buf; }
    if (Al<A>::lvl <= 3) { snprintf(buf, sizeof buf, "-%02d", g.d); e += buf; }
    if (Al<A>::lvl <= 2) { snprintf(buf, sizeof buf, "T%02d", g.H); e += buf; }
    if (Al<A>::lvl <= 1) { snprintf(buf, sizeof buf, ":%02d", g.M); e += buf; }
    if (Al<A>::lvl <= 0) { snprintf(buf, sizeof buf, ":%02d", g.S); e += buf; }
    ctx.stat("C04.evaluations");
    ctx.stat("C04.stream_outputs");
    if (os.str() != e) ctx.viol("C04", std::string("ostream:") + Al<A>::name(), "expected " + e + " got " + os.str());
  }
  Civ rnd_valid() {
    i128 y;
    switch (rng.range(0, 4)) {
      case 0: y = rng.range(1900, 2100); break;
      case 1: y = rng.range(-10000, 10000); break;
      case 2: y = (int64_t)rng.next(); break;
      case 3: y = orc::I64MAX - rng.range(0, 3); break;
      default: y = orc::I64MIN + rng.range(0, 3); break;
    }
    int m = (int)rng.range(1, 12);
    int d = (int)rng.range(1, orc::month_len(y, m));
    if (rng.chance(0.2)) d = orc::month_len(y, m);
    return Civ{y, m, d, (int)rng.range(0, 23), (int)rng.range(0, 59), (int)rng.range(0, 59)};
  }
  void c04_conversions(long n) {
    for (long i = 0; i < n; ++i) {
      Civ c = rnd_valid();
      ctx.set_case("class=conversion op=cross-align %s", orc::str(c).c_str());
      c04_conv_from<cctz::civil_second>(c);
      c04_conv_from<cctz::civil_minute>(c);
      c04_conv_from<cctz::civil_hour>(c);
      c04_conv_from<cctz::civil_day>(c);
      c04_conv_from<cctz::civil_month>(c);
      c04_conv_from<cctz::civil_year>(c);
    }
  }

  // ---------------------------------------------------------------- C05
  template <typename T>
  void c05_add(const Civ& a0, i128 n, const char* src) {
    const int L = Al<T>::lvl;
    if (!orc::fits64(a0.y)) return;
    Civ a = align(a0, L);
    i128 ia = unit_index(a, L);
    Civ e = from_index(ia + n, L);
    bool rep = orc::fits64(e.y) && orc::fits64(n);
    if (!rep) {
      ctx.stat("C05.skipped_unrepresentable");
      return;
    }
    T ta = make<T>(a);
    int64_t nn = static_cast<int64_t>(n);
    ctx.set_case("class=%s op=civil_%s %s + %" PRId64, src, Al<T>::name(), orc::str(a).c_str(), nn);
    T r = ta + nn;
    ctx.stat("C05.evaluations");
    if (get(r) != e)
      ctx.viol("C05", std::string("add:") + Al<T>::name() + ":" + src,
               orc::str(a) + " + " + S(n) + " expected " + orc::str(e) + " got " + orc::str(get(r)));
    T r2 = nn + ta;
    if (get(r2) != e) ctx.viol("C05", std::string("add-commuted:") + Al<T>::name(), orc::str(a) + " + " + S(n));
    // a - (-n) when -n is representable, and a - n form through subtraction of the negated value
    {
      // subtraction: a - m == a + (-m) for every int64 m including INT64_MIN
      i128 m = -n;
      if (orc::fits64(m)) {
        ctx.set_case("class=%s op=civil_%s %s - %s", src, Al<T>::name(), orc::str(a).c_str(), S(m).c_str());
        T r3 = ta - static_cast<int64_t>(m);
        ctx.stat("C05.evaluations");
        if (m == orc::I64MIN) ctx.stat("C05.subtract_int64_min");
        if (get(r3) != e)
          ctx.viol("C05", std::string("sub:") + Al<T>::name() + ":" + src,
                   orc::str(a) + " - " + S(m) + " expected " + orc::str(e) + " got " + orc::str(get(r3)));
      }
    }
    // inverse law (a + n) - a == n
    ctx.set_case("class=%s op=civil_%s (%s + %" PRId64 ") - a", src, Al<T>::name(), orc::str(a).c_str(), nn);
    int64_t back = r - ta;
    ctx.stat("C05.evaluations");
    if (back != nn)
      ctx.viol("C05", std::string("inverse-add-diff:") + Al<T>::name() + ":" + src,
               "(" + orc::str(a) + " + " + S(n) + ") - a = " + std::to_string(back));
    // compound assignment and ++/--
    if (n == 1 || n == -1) {
      T x = ta;
      if (n == 1) {
        T old = x++;
        T y2 = ta;
        ++y2;
        if (get(x) != e || get(old) != a || get(y2) != e) ctx.viol("C05", std::string("increment:") + Al<T>::name(), orc::str(a));
      } else {
        T old = x--;
        T y2 = ta;
        --y2;
        if (get(x) != e || get(old) != a || get(y2) != e) ctx.viol("C05", std::string("decrement:") + Al<T>::name(), orc::str(a));
      }
      ctx.stat("C05.evaluations", 2);
    }
    {
      T x = ta;
      x += nn;
      if (get(x) != e) ctx.viol("C05", std::string("plus-assign:") + Al<T>::name(), orc::str(a) + " += " + S(n));
      ctx.stat("C05.evaluations");
      if (orc::fits64(-n)) {
        T y = ta;
        y -= static_cast<int64_t>(-n);
        if (get(y) != e) ctx.viol("C05", std::string("minus-assign:") + Al<T>::name(), orc::str(a) + " -= " + S(-n));
        ctx.stat("C05.evaluations");
      }
    }
    if (nn > 1000 || nn < -1000 || !(a.y > -100000 && a.y < 100000)) {
      nt.insert(sup::mix(sup::mix(sup::fnvs(orc::str(a)), (uint64_t)nn), L));
    }
  }
  template <typename T>
  void c05_diff(const Civ& a0, const Civ& b0, const char* src) {
    const int L = Al<T>::lvl;
    if (!orc::fits64(a0.y) || !orc::fits64(b0.y)) return;
    Civ a = align(a0, L), b = align(b0, L);
    i128 d = unit_index(a, L) - unit_index(b, L);
    T ta = make<T>(a), tb = make<T>(b);
    // order relations never overflow: always checked
    bool lt = unit_index(a, L) < unit_index(b, L), eq = d == 0;
    ctx.stat("C05.evaluations");
    if ((ta < tb) != lt || (ta == tb) != eq || (ta != tb) == eq || (ta <= tb) != (lt || eq) || (ta > tb) != (!lt && !eq) ||
        (ta >= tb) != !lt)
      ctx.viol("C05", std::string("order:") + Al<T>::name() + ":" + src, orc::str(a) + " vs " + orc::str(b));
    if (!orc::fits64(d)) {
      ctx.stat("C05.skipped_unrepresentable");
      return;
    }
    ctx.set_case("class=%s op=civil_%s %s - %s", src, Al<T>::name(), orc::str(a).c_str(), orc::str(b).c_str());
    int64_t g = ta - tb;
    ctx.stat("C05.evaluations");
    if (d == orc::I64MAX || d == orc::I64MIN) ctx.stat("C05.difference_at_int64_limit");
    if ((i128)g != d)
      ctx.viol("C05", std::string("difference:") + Al<T>::name() + ":" + src,
               orc::str(a) + " - " + orc::str(b) + " expected " + S(d) + " got " + std::to_string(g));
    if ((g < 0) != lt) ctx.viol("C05", std::string("order-vs-difference:") + Al<T>::name(), orc::str(a) + " vs " + orc::str(b));
    // b + (a - b) == a
    ctx.set_case("class=%s op=civil_%s b + (a - b), a=%s b=%s", src, Al<T>::name(), orc::str(a).c_str(), orc::str(b).c_str());
    T r = tb + g;
    ctx.stat("C05.evaluations");
    if (get(r) != a)
      ctx.viol("C05", std::string("inverse-diff-add:") + Al<T>::name() + ":" + src,
               orc::str(b) + " + (" + S(d) + ") expected " + orc::str(a) + " got " + orc::str(get(r)));
    nt.insert(sup::mix(sup::fnvs(orc::str(a) + orc::str(b)), L));
  }
  template <typename T>
  void c05_type(long n) {
    const int L = Al<T>::lvl;
    for (long i = 0; i < n; ++i) {
      Civ a = rnd_valid();
      i128 nn;
      switch (rng.range(0, 7)) {
        case 0: nn = rng.range(-3, 3); break;
        case 1: nn = rng.range(-100000, 100000); break;
        case 2: nn = (int64_t)rng.next(); break;
        case 3: nn = orc::I64MIN + rng.range(0, 2); break;
        case 4: nn = orc::I64MAX - rng.range(0, 2); break;
        case 5: {
          // land exactly on / next to the representable limits
          Civ lim = rng.chance(0.5) ? Civ{orc::I64MAX, 12, 31, 23, 59, 59} : Civ{orc::I64MIN, 1, 1, 0, 0, 0};
          nn = unit_index(align(lim, L), L) - unit_index(align(a, L), L) + rng.range(-2, 2);
          break;
        }
        case 6: {
          // whole 400-year cycles in the unit of this alignment, +- a little (with and without borrow from the lower field)
          static const i128 kPerCycle[6] = {(i128)146097 * 86400, (i128)146097 * 1440, (i128)146097 * 24, 146097, 4800, 400};
          nn = (rng.chance(0.5) ? 1 : -1) * ((i128)rng.range(0, 5) * kPerCycle[L] + rng.range(0, 50));
          if (rng.chance(0.3)) a.H = 0, a.M = 0, a.S = 0;
          if (rng.chance(0.3)) a.d = 1;
          break;
        }
        default: nn = rng.chance(0.5) ? 1 : -1; break;
      }
      if (!orc::fits64(nn)) {
        // choose a base so that the step is representable
        nn = orc::clamp64(nn);
      }
      c05_add<T>(a, nn, "random");
      if (rng.chance(0.05)) {
        // a - INT64_MIN (the n == min special case of operator-), where representable
        Civ lo = from_index(unit_index(align(Civ{orc::I64MIN, 1, 1, 0, 0, 0}, L), L) + rng.range(0, 1000000), L);
        Civ e = from_index(unit_index(lo, L) + ((i128)1 << 63), L);
        if (orc::fits64(lo.y) && orc::fits64(e.y)) {
          T tl = make<T>(lo);
          ctx.set_case("class=random op=civil_%s %s - INT64_MIN", Al<T>::name(), orc::str(lo).c_str());
          T r = tl - INT64_MIN;
          ctx.stat("C05.evaluations");
          ctx.stat("C05.subtract_int64_min");
          if (get(r) != e)
            ctx.viol("C05", std::string("sub-int64-min:") + Al<T>::name(),
                     orc::str(lo) + " - INT64_MIN expected " + orc::str(e) + " got " + orc::str(get(r)));
          T r2 = tl;
          ctx.set_case("class=random op=civil_%s %s -= INT64_MIN", Al<T>::name(), orc::str(lo).c_str());
          r2 -= INT64_MIN;
          ctx.stat("C05.evaluations");
          if (get(r2) != e)
            ctx.viol("C05", std::string("minus-assign-int64-min:") + Al<T>::name(),
                     orc::str(lo) + " -= INT64_MIN expected " + orc::str(e) + " got " + orc::str(get(r2)));
        }
      }
      // pairs
      Civ b;
      switch (rng.range(0, 5)) {
        case 0: b = rnd_valid(); break;
        case 1: {  // close to a
          i128 idx = unit_index(align(a, L), L) + rng.range(-1000000, 1000000);
          b = from_index(idx, L);
          break;
        }
        case 2: {  // years differ by a multiple of 400 +- 1 (the 2*146097 correction branch)
          b = a;
          b.y = a.y + (i128)rng.range(-5, 5) * 400 + rng.range(-1, 1);
          b.m = (int)rng.range(1, 12);
          b.d = (int)rng.range(1, 28);
          break;
        }
        case 3: {  // difference engineered to equal INT64_MAX / INT64_MIN exactly (or off by one)
          i128 want = (rng.chance(0.5) ? orc::I64MAX : orc::I64MIN) + rng.range(-1, 1);
          b = from_index(unit_index(align(a, L), L) - want, L);
          break;
        }
        case 4: {
          b = a;
          b.y = rng.chance(0.5) ? orc::I64MAX : orc::I64MIN;
          break;
        }
        default: {
          i128 idx = unit_index(align(a, L), L) + (int64_t)rng.next() / 4;
          b = from_index(idx, L);
          break;
        }
      }
      if (!orc::fits64(b.y)) continue;
      c05_diff<T>(a, b, "random");
    }
  }
  void c05_cross_order(long n) {
    for (long i = 0; i < n; ++i) {
      Civ a = rnd_valid(), b = rng.chance(0.5) ? a : rnd_valid();
      if (rng.chance(0.5)) {
        b = a;
        int f = (int)rng.range(0, 5);
        if (f == 0) b.S = (int)rng.range(0, 59);
        if (f == 1) b.M = (int)rng.range(0, 59);
        if (f == 2) b.H = (int)rng.range(0, 23);
        if (f == 3) b.d = (int)rng.range(1, 28);
        if (f == 4) b.m = (int)rng.range(1, 12);
      }
      cctz::civil_second sa = make<cctz::civil_second>(a);
      cctz::civil_day db = make<cctz::civil_day>(b);
      cctz::civil_month mb = make<cctz::civil_month>(b);
      cctz::civil_hour hb = make<cctz::civil_hour>(b);
      Civ bd = align(b, 3), bm = align(b, 4), bh = align(b, 2);
      auto lex = [](const Civ& x, const Civ& y) {
        if (x.y != y.y) return x.y < y.y;
        if (x.m != y.m) return x.m < y.m;
        if (x.d != y.d) return x.d < y.d;
        if (x.H != y.H) return x.H < y.H;
        if (x.M != y.M) return x.M < y.M;
        return x.S < y.S;
      };
      ctx.stat("C05.evaluations", 3);
      ctx.stat("C05.cross_alignment_comparisons", 3);
      if ((sa < db) != lex(a, bd) || (db < sa) != lex(bd, a) || (sa == db) != (a == bd))
        ctx.viol("C05", "cross-order:second-day", orc::str(a) + " vs " + orc::str(bd));
      if ((sa < mb) != lex(a, bm) || (mb < sa) != lex(bm, a) || (sa >= mb) != !lex(a, bm))
        ctx.viol("C05", "cross-order:second-month", orc::str(a) + " vs " + orc::str(bm));
      if ((hb < db) != lex(bh, bd) || (db <= hb) != !lex(bh, bd))
        ctx.viol("C05", "cross-order:hour-day", orc::str(bh) + " vs " + orc::str(bd));
    }
  }

  // ---------------------------------------------------------------- C17
  static int wd_index(cctz::weekday w) {  // 0 = Sunday
    switch (w) {
      case cctz::weekday::sunday: return 0;
      case cctz::weekday::monday: return 1;
      case cctz::weekday::tuesday: return 2;
      case cctz::weekday::wednesday: return 3;
      case cctz::weekday::thursday: return 4;
      case cctz::weekday::friday: return 5;
      case cctz::weekday::saturday: return 6;
    }
    return -1;
  }
  static cctz::weekday wd_from(int i) {
    static const cctz::weekday k[] = {cctz::weekday::sunday,   cctz::weekday::monday, cctz::weekday::tuesday, cctz::weekday::wednesday,
                                      cctz::weekday::thursday, cctz::weekday::friday, cctz::weekday::saturday};
    return k[i];
  }
  void c17_day(i128 y, int m, int d, const char* src) {
    if (!orc::fits64(y)) return;
    i128 z = orc::days_from_civil(y, m, d);
    cctz::civil_day cd(static_cast<int64_t>(y), m, d);
    ctx.set_case("class=%s op=weekday/yearday %s-%02d-%02d", src, S(y).c_str(), m, d);
    int ew = orc::weekday_of_days(z);
    int gw = wd_index(cctz::get_weekday(cd));
    ctx.stat("C17.evaluations");
    if (gw != ew) ctx.viol("C17", std::string("weekday:") + src, S(y) + "-" + std::to_string(m) + "-" + std::to_string(d) + " expected " + std::to_string(ew) + " got " + std::to_string(gw));
    int ey = static_cast<int>(z - orc::days_from_civil(y, 1, 1)) + 1;
    int gy = cctz::get_yearday(cd);
    ctx.stat("C17.evaluations");
    if (gy != ey) ctx.viol("C17", std::string("yearday:") + src, S(y) + "-" + std::to_string(m) + "-" + std::to_string(d) + " expected " + std::to_string(ey) + " got " + std::to_string(gy));
    // the same questions asked with an argument of every other alignment: a finer one denotes the same day, a coarser
    // one (month, year) the first day of its period
    {
      cctz::civil_second c_s(static_cast<int64_t>(y), m, d, 23, 59, 59);
      cctz::civil_minute c_m(static_cast<int64_t>(y), m, d, 12, 30);
      cctz::civil_hour c_h(static_cast<int64_t>(y), m, d, 1);
      ctx.stat("C17.evaluations", 6);
      ctx.stat("C17.other_alignment_arguments", 6);
      if (wd_index(cctz::get_weekday(c_s)) != ew || wd_index(cctz::get_weekday(c_m)) != ew || wd_index(cctz::get_weekday(c_h)) != ew)
        ctx.viol("C17", std::string("weekday:finer-alignment-argument:") + src, S(y) + "-" + std::to_string(m) + "-" + std::to_string(d));
      if (cctz::get_yearday(c_s) != ey || cctz::get_yearday(c_m) != ey || cctz::get_yearday(c_h) != ey)
        ctx.viol("C17", std::string("yearday:finer-alignment-argument:") + src, S(y) + "-" + std::to_string(m) + "-" + std::to_string(d));
      if (d == 1) {
        cctz::civil_month c_mo(static_cast<int64_t>(y), m);
        ctx.stat("C17.evaluations", 2);
        ctx.stat("C17.other_alignment_arguments", 2);
        int gwm = wd_index(cctz::get_weekday(c_mo)), gym = cctz::get_yearday(c_mo);
        if (gwm != ew) ctx.viol("C17", std::string("weekday:civil_month-argument:") + src, S(y) + "-" + std::to_string(m) + " expected " + std::to_string(ew) + " got " + std::to_string(gwm));
        if (gym != ey) ctx.viol("C17", std::string("yearday:civil_month-argument:") + src, S(y) + "-" + std::to_string(m) + " expected " + std::to_string(ey) + " got " + std::to_string(gym));
        if (m == 1) {
          cctz::civil_year c_y(static_cast<int64_t>(y));
          ctx.stat("C17.evaluations", 2);
          ctx.stat("C17.other_alignment_arguments", 2);
          int gwy = wd_index(cctz::get_weekday(c_y)), gyy = cctz::get_yearday(c_y);
          if (gwy != ew) ctx.viol("C17", std::string("weekday:civil_year-argument:") + src, S(y) + " expected " + std::to_string(ew) + " got " + std::to_string(gwy));
          if (gyy != 1) ctx.viol("C17", std::string("yearday:civil_year-argument:") + src, S(y) + " got " + std::to_string(gyy));
        }
      }
    }
    for (int w = 0; w < 7; ++w) {
      int fwd = ((w - ew) % 7 + 7) % 7;
      if (fwd == 0) fwd = 7;
      int bwd = ((ew - w) % 7 + 7) % 7;
      if (bwd == 0) bwd = 7;
      i128 ny, py;
      int nm, nd, pm, pd;
      orc::civil_from_days(z + fwd, &ny, &nm, &nd);
      orc::civil_from_days(z - bwd, &py, &pm, &pd);
      if (orc::fits64(ny)) {
        ctx.set_case("class=%s op=next_weekday %s-%02d-%02d wd=%d", src, S(y).c_str(), m, d, w);
        cctz::civil_day n = cctz::next_weekday(cd, wd_from(w));
        ctx.stat("C17.evaluations");
        if ((i128)n.year() != ny || n.month() != nm || n.day() != nd)
          ctx.viol("C17", std::string("next_weekday:") + src, S(y) + "-" + std::to_string(m) + "-" + std::to_string(d) + " wd=" + std::to_string(w));
      } else {
        ctx.stat("C17.skipped_result_outside_year_range");
      }
      if (orc::fits64(py)) {
        ctx.set_case("class=%s op=prev_weekday %s-%02d-%02d wd=%d", src, S(y).c_str(), m, d, w);
        cctz::civil_day p = cctz::prev_weekday(cd, wd_from(w));
        ctx.stat("C17.evaluations");
        if ((i128)p.year() != py || p.month() != pm || p.day() != pd)
          ctx.viol("C17", std::string("prev_weekday:") + src, S(y) + "-" + std::to_string(m) + "-" + std::to_string(d) + " wd=" + std::to_string(w));
      } else {
        ctx.stat("C17.skipped_result_outside_year_range");
      }
    }
  }
  // C04 / C05 over every year of a contiguous block: the constructions and steps that cross the end of February and the
  // year boundary, expected values from the leap rule alone (y % 4, % 100, % 400 on int64).
  static bool is_ymd(const cctz::civil_day& d, int64_t y, int m, int dd) { return d.year() == y && d.month() == m && d.day() == dd; }
  void c04_year_block(int64_t y0, int64_t n) {
    long bad = 0;
    for (int64_t i = 0; i < n; ++i) {
      int64_t y = y0 + i;
      int lp = (y % 4 == 0 && (y % 100 != 0 || y % 400 == 0)) ? 1 : 0;
      cctz::civil_second ny(y, 12, 31, 23, 59, 60);
      bool ok = is_ymd(cctz::civil_day(y, 2, 29), y, lp ? 2 : 3, lp ? 29 : 1) && is_ymd(cctz::civil_day(y, 2, 30), y, 3, lp ? 1 : 2) &&
                is_ymd(cctz::civil_day(y, 13, 1), y + 1, 1, 1) && is_ymd(cctz::civil_day(y, 1, 0), y - 1, 12, 31) &&
                is_ymd(cctz::civil_day(y, 0, 31), y - 1, 12, 31) && is_ymd(cctz::civil_day(y, 1, 366), lp ? y : y + 1, lp ? 12 : 1, lp ? 31 : 1) &&
                is_ymd(cctz::civil_day(y, 3, 0), y, 2, 28 + lp) && ny.year() == y + 1 && ny.month() == 1 && ny.day() == 1 && ny.hour() == 0 &&
                ny.minute() == 0 && ny.second() == 0;
      if (!ok && bad++ < 3) {
        ctx.set_case("class=year-sweep year=%s", S(y).c_str());
        ctx.viol("C04", "year-sweep", "year " + S(y) + ": (y,2,29)->" + orc::str(get(cctz::civil_day(y, 2, 29))) + " (y,2,30)->" + orc::str(get(cctz::civil_day(y, 2, 30))) +
                                          " (y,13,1)->" + orc::str(get(cctz::civil_day(y, 13, 1))) + " (y,1,0)->" + orc::str(get(cctz::civil_day(y, 1, 0))) +
                                          " (y,1,366)->" + orc::str(get(cctz::civil_day(y, 1, 366))) + " (y,3,0)->" + orc::str(get(cctz::civil_day(y, 3, 0))) +
                                          " (y,12,31,23,59,60)->" + orc::str(get(ny)));
      }
    }
    ctx.stat("C04.evaluations", 8 * n);
    ctx.stat("C04.year_sweep_years", n);
    ctx.stat("C04.distinct_nontrivial", n);
  }
  void c05_year_block(int64_t y0, int64_t n) {
    long bad = 0;
    for (int64_t i = 0; i < n; ++i) {
      int64_t y = y0 + i;
      int lp = (y % 4 == 0 && (y % 100 != 0 || y % 400 == 0)) ? 1 : 0;
      cctz::civil_day jan1(y, 1, 1), next_jan1(y + 1, 1, 1), mar1(y, 3, 1), feb28(y, 2, 28);
      bool ok = next_jan1 - jan1 == 365 + lp && mar1 - feb28 == 1 + lp && jan1 + (365 + lp) == next_jan1 && next_jan1 - (365 + lp) == jan1 &&
                is_ymd(mar1 - 1, y, 2, 28 + lp) && cctz::civil_hour(y, 3, 1, 0) - cctz::civil_hour(y, 2, 28, 0) == 24 * (1 + lp) &&
                cctz::civil_second(y, 1, 1, 0, 0, 0) - cctz::civil_second(y - 1, 12, 31, 23, 59, 59) == 1 &&
                cctz::civil_month(y, 1) - cctz::civil_month(y - 1, 12) == 1 && cctz::civil_year(y + 1) - cctz::civil_year(y) == 1 && jan1 < mar1 &&
                feb28 < mar1 && !(next_jan1 < cctz::civil_day(y, 12, 31));
      if (!ok && bad++ < 3) {
        ctx.set_case("class=year-sweep year=%s", S(y).c_str());
        ctx.viol("C05", "year-sweep", "year " + S(y) + ": (y+1,1,1)-(y,1,1)=" + std::to_string(next_jan1 - jan1) + " (y,3,1)-(y,2,28)=" + std::to_string(mar1 - feb28) +
                                          " (y,1,1)+" + std::to_string(365 + lp) + "=" + orc::str(get(jan1 + (365 + lp))) + " (y,3,1)-1=" + orc::str(get(mar1 - 1)) +
                                          " hours Feb 28..Mar 1=" + std::to_string(cctz::civil_hour(y, 3, 1, 0) - cctz::civil_hour(y, 2, 28, 0)));
      }
    }
    ctx.stat("C05.evaluations", 12 * n);
    ctx.stat("C05.year_sweep_years", n);
    ctx.stat("C05.distinct_nontrivial", n);
  }

  // Every year of a contiguous block, with the oracle advanced incrementally (365 + leap days per year): the weekday of
  // 1 January and 1 March, the ordinals of 1 March and 31 December, and the two weekday searches across the end of
  // February. Lean on purpose (six library calls per year) so that whole integer-width ranges of years can be swept.
  void c17_year_block(int64_t y0, int64_t n) {
    int w = orc::weekday_of_days(orc::days_from_civil(y0, 1, 1));  // weekday of 1 January, advanced by 365 + leap per year
    long bad = 0;
    for (int64_t i = 0; i < n; ++i) {
      int64_t y = y0 + i;
      int lp = (y % 4 == 0 && (y % 100 != 0 || y % 400 == 0)) ? 1 : 0;
      int w_jan1 = w, w_mar1 = (w + 59 + lp) % 7, w_feb28 = (w + 58) % 7;
      cctz::civil_day jan1(y, 1, 1), mar1(y, 3, 1), dec31(y, 12, 31), feb28(y, 2, 28);
      bool ok = wd_index(cctz::get_weekday(jan1)) == w_jan1 && wd_index(cctz::get_weekday(mar1)) == w_mar1 &&
                cctz::get_yearday(mar1) == 60 + lp && cctz::get_yearday(dec31) == 365 + lp &&
                cctz::next_weekday(feb28, wd_from(w_mar1)) == mar1 && cctz::prev_weekday(mar1, wd_from(w_feb28)) == feb28;
      if (!ok && bad++ < 3) {
        ctx.set_case("class=year-sweep year=%s", S(y).c_str());
        ctx.viol("C17", "year-sweep", "year " + S(y) + ": weekday(Jan 1)=" + std::to_string(wd_index(cctz::get_weekday(jan1))) + "/" + std::to_string(w_jan1) +
                                          " weekday(Mar 1)=" + std::to_string(wd_index(cctz::get_weekday(mar1))) + "/" + std::to_string(w_mar1) +
                                          " yearday(Mar 1)=" + std::to_string(cctz::get_yearday(mar1)) + "/" + std::to_string(60 + lp) +
                                          " yearday(Dec 31)=" + std::to_string(cctz::get_yearday(dec31)) + "/" + std::to_string(365 + lp) + " (got/expected)");
      }
      w = (w + 365 + lp) % 7;
    }
    // the incremental weekday must agree with the closed-form oracle at the end of the block
    if (w != orc::weekday_of_days(orc::days_from_civil((i128)y0 + n, 1, 1))) {
      fprintf(stderr, "harness: incremental weekday oracle disagrees with O-CAL at year %s\n", S((i128)y0 + n).c_str());
      abort();
    }
    ctx.stat("C17.evaluations", 6 * n);
    ctx.stat("C17.year_sweep_years", n);
    ctx.stat("C17.distinct_nontrivial", n);
  }
};

// cycle positions: year offsets 400*k
static std::vector<i128> cycle_ks(bool thorough, const char* prop) {
  i128 kmax = orc::fdiv(orc::I64MAX - 2400, 400), kmin = orc::fdiv(orc::I64MIN - 2000, 400) + 1;
  std::vector<i128> ks = {0};
  if (std::string(prop) == "C17" || thorough) {
    for (i128 k : {(i128)1, (i128)-1, (i128)2, (i128)-2, (i128)-5, (i128)-6, (i128)1000, (i128)-1000, (i128)1000000000, (i128)-1000000000, kmax, kmin})
      ks.push_back(k);
  } else {
    for (i128 k : {(i128)-6, (i128)5000000, kmax, kmin}) ks.push_back(k);
  }
  return ks;
}

// Compile-time panel: the same constructor evaluated in a constant expression and at run time must agree (and both with
// the oracle). Arguments reach the run-time call through volatile so that the compiler cannot fold it.
#define VERIF_CX_CASES(X)                                                                                                   \
  X(2016, 3, 0, 0, 0, 0) X(2015, 3, 400, 0, 0, 0) X(2015, 12, 31 + 366, 0, 0, 0) X(2001, 14, -366, 25, -61, 3661)               \
  X(2000, 2, 29 + 365, 0, 0, 0) X(1999, 3, 367, 0, 0, 0) X(2100, 3, 1 + 365, 23, 59, 60) X(1900, 4, 800, 0, 0, 0)               \
  X(2400, 1, 146097 + 1, 0, 0, 0) X(2016, 12, 500, 48, 0, 0) X(-1, 3, 366, 0, 0, 0) X(-400, 5, 1000, 0, 0, 0)                   \
  X(2019, 3, 366 + 365, 0, 0, 0) X(2020, 3, 366, 0, 0, 0) X(2023, 11, 61 + 366, 0, 0, 86400) X(1, 1, 0, 0, 0, -1)               \
  X(2015, 6, -100000, -2400000, 0, 0) X(2015, 1, 258, 0, 0, 0) X(1970, 13, 32, 24, 60, 60) X(2003, 7, 36525 * 3, 0, 0, 0)        \
  X(2024, 2, 30, 0, 0, 0) X(2024, 3, -1, 0, 0, 0) X(2023, 3, 0, 0, 0, 0) X(9999, 12, 32, 0, 0, 0) X(2015, 10, 366 * 5, 0, 0, 0)
template <typename T>
static void cx_check(sup::Ctx& ctx, const T& at_compile_time, int64_t y, int64_t m, int64_t d, int64_t H, int64_t M, int64_t S2) {
  volatile int64_t vy = y, vm = m, vd = d, vH = H, vM = M, vS = S2;
  T at_run_time(vy, vm, vd, vH, vM, vS);
  Civ e = align(orc::normalize(y, m, d, H, M, S2), Al<T>::lvl);
  ctx.stat("C04.evaluations", 2);
  ctx.stat("C04.constexpr_cases");
  if (get(at_compile_time) != e || get(at_run_time) != e)
    ctx.viol("C04", std::string("constexpr-vs-runtime:") + Al<T>::name(),
             "civil_" + std::string(Al<T>::name()) + "(" + std::to_string(y) + "," + std::to_string(m) + "," + std::to_string(d) + "," + std::to_string(H) + "," + std::to_string(M) +
                 "," + std::to_string(S2) + ") oracle " + orc::str(e) + " constant-evaluated " + orc::str(get(at_compile_time)) + " run-time " + orc::str(get(at_run_time)));
}
static void c04_constexpr_panel(sup::Ctx& ctx) {
#if defined(__cpp_constexpr) && __cpp_constexpr >= 201304L
#define VERIF_CX_ONE(y, m, d, H, M, S2)                                   \
  {                                                                        \
    constexpr cctz::civil_second cs_(y, m, d, H, M, S2);                   \
    cx_check<cctz::civil_second>(ctx, cs_, y, m, d, H, M, S2);             \
    constexpr cctz::civil_day cd_(y, m, d, H, M, S2);                      \
    cx_check<cctz::civil_day>(ctx, cd_, y, m, d, H, M, S2);                \
    constexpr cctz::civil_month cm_(y, m, d, H, M, S2);                    \
    cx_check<cctz::civil_month>(ctx, cm_, y, m, d, H, M, S2);              \
    constexpr cctz::civil_year cy_(y, m, d, H, M, S2);                     \
    cx_check<cctz::civil_year>(ctx, cy_, y, m, d, H, M, S2);               \
  }
  VERIF_CX_CASES(VERIF_CX_ONE)
#undef VERIF_CX_ONE
#else
  (void)ctx;
#endif
}

int main(int argc, char** argv) {
  sup::Args a(argc, argv);
  std::string st = orc::selftest_calendar();
  if (!st.empty()) {
    fprintf(stderr, "oracle self-test failed: %s\n", st.c_str());
    return 2;
  }
  std::string prop = a.get("prop", "C04");
  uint64_t seed = static_cast<uint64_t>(a.getl("seed", 0));
  bool thorough = a.get("tier", "quick") == "thorough";
  sup::Options opt = sup::options_from(a);
  // Case layout: 400 cycle-year cases per k (exhaustive part) followed by R random chunks.
  std::vector<i128> ks = cycle_ks(thorough, prop.c_str());
  long ncycle = 400 * static_cast<long>(ks.size());
  long chunk = 20000;
  long total_random = a.getl("random", thorough ? 30000000 : 1500000);
  if (prop == "C17") total_random = thorough ? 2000000 : 200000;
  long nrand = (total_random + chunk - 1) / chunk;
  // year sweep (C04, C05, C17): every year in [-2^30, 2^30) (thorough: [-2^32, 2^32), i.e. every year a 32-bit integer of either
  // signedness can hold), in blocks of 2^22 years
  const int64_t kBlock = int64_t{1} << 22;
  int64_t sweep_lo = thorough ? -(int64_t{1} << 32) : (prop == "C17" ? -(int64_t{1} << 30) : -(int64_t{1} << 29));  // C04/C05 quick: +-2^29
  // --leg main: everything but the sweep (sanitizer build); --leg sweep: the sweep alone (optimised build, the sweep
  // is arithmetic on header-only code and needs speed, not shadow memory); --leg all: both
  std::string leg = a.get("leg", "all");
  long nsweep = leg != "main" ? static_cast<long>((-2 * sweep_lo) / kBlock) : 0;
  if (leg == "sweep") ncycle = 0, nrand = 0;
  long ncases = ncycle + nrand + nsweep;
  return sup::supervise(ncases, opt, [&](long c, sup::Ctx& ctx) {
    Mon m(ctx, seed, static_cast<uint64_t>(c));
    if (c < ncycle) {
      i128 k = ks[c / 400];
      int yi = static_cast<int>(c % 400);
      i128 y = 2000 + yi + 400 * k;
      bool full = (k == 0) || thorough || prop == "C17";
      for (int mo = 1; mo <= 12; ++mo) {
        int len = orc::month_len(y, mo);
        for (int d = 1; d <= len; ++d) {
          if (prop == "C17") {
            m.c17_day(y, mo, d, k == 0 ? "cycle" : "shifted-cycle");
            ctx.stat("C17.days");
          } else if (prop == "C04") {
            // quick tier at k != 0: month ends and starts only
            if (!full && !(d == 1 || d >= 28)) continue;
            m.c04_overlays(y, mo, d);
            ctx.stat("C04.base_days");
          } else {
            if (!full && !(d == 1 || d >= 28)) continue;
            Civ base{y, mo, d, (int)m.rng.range(0, 23), (int)m.rng.range(0, 59), (int)m.rng.range(0, 59)};
            for (long n : {1L, -1L, 86400L, -86400L, 146097L, -146097L, 365L, -366L, 12L, -12L, 4800L, -4801L, 60L, -3600L}) {
              m.c05_add<cctz::civil_second>(base, n, "cycle");
              m.c05_add<cctz::civil_day>(base, n, "cycle");
              m.c05_add<cctz::civil_month>(base, n, "cycle");
            }
            m.c05_add<cctz::civil_minute>(base, -1, "cycle");
            m.c05_add<cctz::civil_hour>(base, 1, "cycle");
            for (long q : {-(146097L * 24 + 1), -(146097L * 24), 146097L * 24 + 1, -(2 * 146097L * 24 + 25), -(146097L * 24 + 24 * (long)d + 1)}) {
              Civ h0 = base;
              h0.H = 0;
              m.c05_add<cctz::civil_hour>(h0, q, "cycle");
              m.c05_add<cctz::civil_hour>(base, q, "cycle");
            }
            m.c05_add<cctz::civil_minute>(base, -(146097L * 1440 + 1), "cycle");
            m.c05_add<cctz::civil_year>(base, -1, "cycle");
            // landmark day counts (1, 4, 100 and 400 years of days, with and without the leap day), taken from the first of
            // the month, from this day and as a plain step, through the hour, minute and second alignments: the day
            // count that reaches the day normalisation is then exactly -K, -K+1, ... for each K
            for (long K : {365L, 366L, 1460L, 1461L, 36524L, 36525L, 146097L}) {
              for (long dd : {-(K + d), -(K + d - 1), -K, K}) {
                m.c05_add<cctz::civil_hour>(base, dd * 24, "cycle-landmark");
                m.c05_add<cctz::civil_minute>(base, dd * 1440, "cycle-landmark");
                m.c05_add<cctz::civil_second>(base, dd * 86400, "cycle-landmark");
              }
            }
            Civ other{y + m.rng.range(-801, 801), (int)m.rng.range(1, 12), (int)m.rng.range(1, 28), 0, 0, 0};
            m.c05_diff<cctz::civil_day>(base, other, "cycle");
            m.c05_diff<cctz::civil_second>(base, other, "cycle");
            ctx.stat("C05.base_days");
          }
        }
      }
      if (prop == "C17") m.nt.clear(), ctx.stat("C17.distinct_nontrivial", orc::leap(y) ? 366 : 365);
    } else if (c >= ncycle + nrand) {
      int64_t b0 = sweep_lo + (c - ncycle - nrand) * kBlock;
      if (prop == "C17") m.c17_year_block(b0, kBlock);
      else if (prop == "C04") m.c04_year_block(b0, kBlock);
      else m.c05_year_block(b0, kBlock);
      return;
    } else {
      if (prop == "C04") {
        if (c == ncycle) c04_constexpr_panel(ctx);
        m.c04_random(chunk * 4 / 5 / 6);  // six types per tuple
        m.c04_conversions(chunk / 5 / 42);
      } else if (prop == "C05") {
        long per = chunk / 6 / 8;
        m.c05_type<cctz::civil_second>(per);
        m.c05_type<cctz::civil_minute>(per);
        m.c05_type<cctz::civil_hour>(per);
        m.c05_type<cctz::civil_day>(per);
        m.c05_type<cctz::civil_month>(per);
        m.c05_type<cctz::civil_year>(per);
        m.c05_cross_order(per);
      } else {
        // every day of the years next to powers of two (where a narrower integer type or a cast would wrap)
        if (c == ncycle) {
          for (int sh : {7, 8, 15, 16, 24, 31, 32, 33, 40, 48, 53, 62}) {
            for (int sg : {1, -1}) {
              for (int dy : {-1, 0, 1}) {
                i128 y = (i128)sg * ((i128)1 << sh) + dy;
                for (int mo = 1; mo <= 12; ++mo)
                  for (int d = 1; d <= orc::month_len(y, mo); ++d) m.c17_day(y, mo, d, "power-of-two-year");
                ctx.stat("C17.power_of_two_years");
              }
            }
          }
        }
        // C17 random days over the whole int64 year range
        for (long i = 0; i < chunk / 16; ++i) {
          Civ c2 = m.rnd_valid();
          m.c17_day(c2.y, c2.m, c2.d, "random");
          ctx.stat("C17.distinct_nontrivial");
        }
      }
    }
    if (prop != "C17") ctx.stat(prop + ".distinct_nontrivial", m.nt.size());
    if (c % 97 == 0 && leg != "sweep") {
      if (prop == "C04") {
        cctz::civil_second s(2001, 14, -366, 25, -61, 3661);
        ctx.sample("C04", "civil_second(2001,14,-366,25,-61,3661) -> " + orc::str(get(s)) + " oracle " +
                              orc::str(orc::normalize(2001, 14, -366, 25, -61, 3661)), 2);
      } else if (prop == "C05") {
        cctz::civil_day d1(INT64_MAX, 12, 31), d2(INT64_MAX - 800, 1, 1);
        ctx.sample("C05", "civil_day(INT64_MAX-12-31) - civil_day((INT64_MAX-800)-01-01) = " + std::to_string(d1 - d2) +
                              "; (civil_second() + INT64_MIN) = " + orc::str(get(cctz::civil_second() + INT64_MIN)), 2);
      } else {
        cctz::civil_day d(2400 + 400 * 1000, 2, 29);
        ctx.sample("C17", "get_weekday(402400-02-29)=" + std::to_string(Mon::wd_index(cctz::get_weekday(d))) + " (0=Sun) oracle " +
                              std::to_string(orc::weekday_of_days(orc::days_from_civil(402400, 2, 29))) + " yearday=" +
                              std::to_string(cctz::get_yearday(d)), 2);
      }
    }
  });
}
