// Concurrency monitors: C13 (race freedom + schedule independence) and C20 (factory contract).
//   concmon --mode stress --zones LIST --seed N --rounds R --out DIR     (build with -fsanitize=thread, or asan)
//   concmon --mode sched  --zones LIST --seed N --kmax 3 --out DIR       (asan build; enumerated schedules)
// Both modes record the zone-data factory's event log and check the documented contract on it.
#define VERIF_DEFINE_FACTORY
#include <atomic>
#include <chrono>
#include <cinttypes>
#include <condition_variable>
#include <fstream>
#include <sstream>
#include <thread>

#include "cctz/time_zone.h"
#include "oracle.h"
#include "tsan_timedlock.h"
#include "sup.h"
#include "time_zone_fixed.h"
#include "zsrc.h"

extern "C" {
extern void (*cctz_verif_load_hook)(int point, const char* name);
}

typedef cctz::time_point<cctz::seconds> tp_t;
static inline tp_t mk(int64_t t) { return tp_t(cctz::seconds(t)); }
static inline int64_t un(tp_t tp) { return tp.time_since_epoch().count(); }

struct ZBytes {
  std::string cls, name, bytes;
  std::vector<int64_t> inst;
};
static std::vector<ZBytes> g_z;

static std::string cs_str(const cctz::civil_second& c) {
  char b[96];
  snprintf(b, sizeof b, "%" PRId64 "-%02d-%02dT%02d:%02d:%02d", (int64_t)c.year(), c.month(), c.day(), c.hour(), c.minute(), c.second());
  return b;
}

// One deterministic query on a zone -> canonical text. `q` selects the operation and its argument.
static const int kQueries = 48;
static std::string query(const cctz::time_zone& tz, const ZBytes& zb, int q) {
  int64_t t = zb.inst[static_cast<size_t>(q) % zb.inst.size()];
  std::ostringstream o;
  switch (q % 6) {
    case 0: {
      auto al = tz.lookup(mk(t));
      o << cs_str(al.cs) << " " << al.offset << " " << al.is_dst << " " << al.abbr;
      break;
    }
    case 1: {
      auto al = tz.lookup(mk(t));
      auto cl = tz.lookup(al.cs);
      o << cl.kind << " " << un(cl.pre) << " " << un(cl.trans) << " " << un(cl.post);
      break;
    }
    case 2: {
      cctz::time_zone::civil_transition tr;
      bool ok = tz.next_transition(mk(t), &tr);
      o << ok;
      if (ok) o << " " << cs_str(tr.from) << " " << cs_str(tr.to);
      break;
    }
    case 3: {
      cctz::time_zone::civil_transition tr;
      bool ok = tz.prev_transition(mk(t), &tr);
      o << ok;
      if (ok) o << " " << cs_str(tr.from) << " " << cs_str(tr.to);
      break;
    }
    case 4: o << cctz::format("%Y-%m-%d %H:%M:%S %E*z %Z %a", mk(t), tz); break;
    default: {
      std::string s = cctz::format("%Y-%m-%d %H:%M:%S", mk(t), tz);
      tp_t tp;
      bool ok = cctz::parse("%Y-%m-%d %H:%M:%S", s, tz, &tp);
      o << ok << " " << (ok ? un(tp) : 0);
      break;
    }
  }
  return o.str();
}

// ------------------------------------------------------------------ factory-log checker (C20)
struct LogVerdict {
  long enters = 0;
  std::vector<std::pair<std::string, std::string>> viol;  // key, detail
};
// independent of the library: 'UTC', 'UTC0' or Fixed/UTC[+-]dd:dd:dd spelling at most 24 hours
static bool is_internal_name(const std::string& n) {
  if (n == "UTC" || n == "UTC0") return true;
  const std::string pre = "Fixed/UTC";
  if (n.size() != pre.size() + 9 || n.compare(0, pre.size(), pre) != 0) return false;
  const char* p = n.data() + pre.size();
  if ((p[0] != '+' && p[0] != '-') || p[3] != ':' || p[6] != ':') return false;
  for (int i : {1, 2, 4, 5, 7, 8})
    if (p[i] < '0' || p[i] > '9') return false;
  long tot = ((p[1] - '0') * 10 + (p[2] - '0')) * 3600 + ((p[4] - '0') * 10 + (p[5] - '0')) * 60 + (p[7] - '0') * 10 + (p[8] - '0');
  return tot <= 86400;
}
static std::string fixed_name(long off) {
  char b[64];
  long a = off < 0 ? -off : off;
  snprintf(b, sizeof b, "Fixed/UTC%c%02ld:%02ld:%02ld", off < 0 ? '-' : '+', a / 3600, (a / 60) % 60, a % 60);
  return b;
}
static LogVerdict check_factory_log(const std::vector<zsrc::Event>& log, std::map<std::string, int>* calls_per_name) {
  LogVerdict v;
  std::map<std::thread::id, std::string> loading;  // open load_time_zone calls per thread
  std::map<std::thread::id, std::string> open;     // open factory invocations
  for (auto& e : log) {
    std::ostringstream tid;
    tid << e.tid;
    if (e.kind == 10) loading[e.tid] = e.name;
    if (e.kind == 11) loading.erase(e.tid);
    if (e.kind == 0) {
      ++v.enters;
      int n = ++(*calls_per_name)[e.name];
      if (n > 1) v.viol.push_back({"factory-called-twice-for-a-name", "name=" + e.name + " invocation #" + std::to_string(n) + " seq=" + std::to_string(e.seq)});
      if (!open.empty()) {
        std::string other = open.begin()->second;
        v.viol.push_back({std::string("factory-invocations-overlap:") + (other == e.name ? "same-name" : "different-names"),
                          "name=" + e.name + " entered at seq=" + std::to_string(e.seq) + " while the invocation for " + other + " was still open"});
      }
      auto it = loading.find(e.tid);
      if (it == loading.end() || (it->second != e.name && it->second != "<local>"))
        v.viol.push_back({"factory-not-on-the-loading-thread", "name=" + e.name + " thread=" + tid.str() + " has no open load_time_zone(" + e.name + ")"});
      if (is_internal_name(e.name)) v.viol.push_back({"factory-called-for-internal-name", "name=" + e.name});
      open[e.tid] = e.name;
    }
    if (e.kind == 1) open.erase(e.tid);
  }
  return v;
}

static bool traced_load(const std::string& name, cctz::time_zone* tz) {
  zsrc::log_event(10, name);
  bool ok = cctz::load_time_zone(name, tz);
  zsrc::log_event(11, name);
  return ok;
}

// A name with the shape of a fixed-offset name that spells more than 24 hours: not an internal name, so it is looked
// up like any other (statement of C15/C20). Unique per call within this process, so that each is a first load.
static std::string over_range_name() {
  static std::atomic<long> n{0};
  long v = n.fetch_add(1);
  char b[64];
  snprintf(b, sizeof b, "Fixed/UTC%c%02ld:%02ld:%02ld", (v & 1) ? '-' : '+', 25 + (v / 2) % 75, (v / 150) % 100, (v / 15000) % 100);
  return b;
}

// A fixed-offset name (within 24 hours, not zero) that this process has most likely not loaded before.
static std::string fresh_fixed_name() {
  static std::atomic<long> n{0};
  long v = n.fetch_add(1);
  long off = 1 + (v * 7919) % 86399;
  return fixed_name((v & 1) ? -off : off);
}

// ------------------------------------------------------------------ stress mode
// relaxed-atomic race-window counters (no synchronisation added between the loader's sections)
static std::atomic<int> g_in_miss[64];
static std::atomic<long> g_first_load_races{0};
static void stress_hook(int point, const char* name) {
  unsigned h = static_cast<unsigned>(sup::fnv(name, strlen(name))) % 64;
  if (point == 2) {
    int n = g_in_miss[h].fetch_add(1, std::memory_order_relaxed) + 1;
    if (n >= 2) g_first_load_races.fetch_add(1, std::memory_order_relaxed);
  }
  if (point == 6 || point == 7) g_in_miss[h].fetch_sub(1, std::memory_order_relaxed);
}

struct Barrier {
  std::atomic<int> n;
  explicit Barrier(int k) : n(k) {}
  void wait() {
    n.fetch_sub(1);
    while (n.load() > 0) std::this_thread::yield();
  }
};

static void stress_round(sup::Ctx& ctx, uint64_t seed, long round, int k, const std::vector<std::vector<std::string>>& ref) {
  sup::Rng rng(seed, static_cast<uint64_t>(round) * 131 + static_cast<uint64_t>(k));
  // names of this round
  struct NameEnt {
    std::string name;
    int zi;        // index into g_z, -1 = invalid, -2 = fixed/UTC
    bool expect_ok;
    long fixed_off;
  };
  std::vector<NameEnt> names;
  int nz = static_cast<int>(std::min<size_t>(g_z.size(), 4));
  std::string pre = "V/C/" + std::to_string(round) + "." + std::to_string(k) + "/";
  for (int j = 0; j < nz; ++j) {
    int zi = static_cast<int>((round * 4 + j) % static_cast<long>(g_z.size()));
    names.push_back({pre + "z" + std::to_string(j), zi, true, 0});
    names.push_back({pre + "z" + std::to_string(j) + "-alias", zi, true, 0});
    zsrc::put(names[names.size() - 2].name, g_z[zi].bytes);
    zsrc::put(names[names.size() - 1].name, g_z[zi].bytes);
  }
  for (int j = 0; j < 2; ++j) names.push_back({pre + "bad" + std::to_string(j), -1, false, 0});
  zsrc::put(pre + "garbage", "TZif2 this is not zone data");
  names.push_back({pre + "garbage", -1, false, 0});
  for (long off : {3600L, -12345L, 86400L, -86400L, 86399L, -1L}) names.push_back({fixed_name(off), -2, true, off});
  {
    // fixed-offset-shaped names beyond 24 hours go to the data source like any other name
    std::string o1 = over_range_name(), o2 = over_range_name(), o3 = "Fixed/UTC+24:00:01";
    zsrc::put(o1, g_z[static_cast<size_t>(round) % g_z.size()].bytes);
    names.push_back({o1, static_cast<int>(static_cast<size_t>(round) % g_z.size()), true, 0});
    names.push_back({o2, -1, false, 0});
    names.push_back({o3, -1, false, 0});
  }
  names.push_back({"UTC", -2, true, 0});
  names.push_back({"UTC0", -2, true, 0});
  // the "file:" spelling of a registered name is a different name: it goes to the data source as it is (where nothing is
  // registered under it, and no such file exists), so it fails, and the source sees each spelling once
  names.push_back({"file:" + pre + "z0", -1, false, 0});
  names.push_back({"file:" + pre + "bad0", -1, false, 0});
  // fixed-offset names nobody has loaded yet: all threads must end up holding the same zone for each
  for (int j = 0; j < 4; ++j) names.push_back({fresh_fixed_name(), -2, true, 0});
  // zones shared by all threads (their hints are hammered)
  std::vector<cctz::time_zone> shared(static_cast<size_t>(nz));
  std::vector<int> shared_zi(static_cast<size_t>(nz));
  for (int j = 0; j < nz; ++j) {
    shared_zi[j] = static_cast<int>((round * 4 + j + 1) % static_cast<long>(g_z.size()));
    std::string n = pre + "shared" + std::to_string(j);
    zsrc::put(n, g_z[shared_zi[j]].bytes);
    cctz::load_time_zone(n, &shared[j]);
  }
  zsrc::st().frozen.store(true);
  zsrc::st().logging.store(true);
  struct Out {
    std::vector<std::string> bad;
    std::map<std::string, cctz::time_zone> got;
    std::map<std::string, bool> ok;
    long ops = 0;
  };
  std::vector<Out> outs(static_cast<size_t>(k));
  Barrier bar(k);
  std::vector<std::thread> th;
  for (int ti = 0; ti < k; ++ti) {
    th.emplace_back([&, ti]() {
      zsrc::thread_log_init();
      sup::Rng r(seed, static_cast<uint64_t>(round) * 1000003 + static_cast<uint64_t>(ti) * 7919 + static_cast<uint64_t>(k));
      Out& o = outs[ti];
      bar.wait();
      int nops = 60;
      for (int i = 0; i < nops; ++i) {
        int c = (int)r.range(0, 9);
        if (c < 4) {
          const NameEnt& ne = names[r.next() % names.size()];
          cctz::time_zone tz = cctz::fixed_time_zone(cctz::seconds(7));
          bool ok = traced_load(ne.name, &tz);
          ++o.ops;
          if (ok != ne.expect_ok) o.bad.push_back("load(" + ne.name + ") returned " + std::to_string(ok));
          if (!ok && !(tz == cctz::utc_time_zone())) o.bad.push_back("failed load(" + ne.name + ") did not yield UTC");
          if (ok && ne.zi != -2 && tz.name() != ne.name) o.bad.push_back("name() of " + ne.name + " is " + tz.name());
          auto it = o.got.find(ne.name);
          if (it != o.got.end() && !(it->second == tz)) o.bad.push_back("second load of " + ne.name + " returned a different zone");
          o.got[ne.name] = tz;
          o.ok[ne.name] = ok;
          if (ok && ne.zi >= 0) {
            int q = (int)r.range(0, kQueries - 1);
            std::string a = query(tz, g_z[ne.zi], q);
            ++o.ops;
            if (a != ref[ne.zi][q]) o.bad.push_back("query " + std::to_string(q) + " on " + ne.name + ": '" + a + "' != single-threaded '" + ref[ne.zi][q] + "'");
          }
        } else if (c < 8) {
          int j = (int)r.range(0, nz - 1);
          int q = (int)r.range(0, kQueries - 1);
          std::string a = query(shared[j], g_z[shared_zi[j]], q);
          ++o.ops;
          if (a != ref[shared_zi[j]][q]) o.bad.push_back("query " + std::to_string(q) + " on shared zone: '" + a + "' != single-threaded '" + ref[shared_zi[j]][q] + "'");
        } else {
          switch (r.range(0, 3)) {
            case 0: {
              zsrc::log_event(10, "<local>");  // local_time_zone() loads whatever $TZ/$LOCALTIME name
              cctz::time_zone l = cctz::local_time_zone();
              zsrc::log_event(11, "<local>");
              if (!(l == cctz::utc_time_zone()) && l.name().empty()) o.bad.push_back("local_time_zone() has no name");
              break;
            }
            case 1: {
              if (cctz::utc_time_zone().name() != "UTC") o.bad.push_back("utc_time_zone().name()");
              // the informational accessors too (their content is unspecified, but they must be stable and race-free)
              int j = (int)r.range(0, nz - 1);
              std::string v1 = shared[j].version(), d1 = shared[j].description();
              if (v1 != shared[j].version() || d1 != shared[j].description() || cctz::utc_time_zone().version() != cctz::utc_time_zone().version())
                o.bad.push_back("version()/description() of a loaded zone changed between two calls");
              break;
            }
            case 2: {
              long off = r.range(-86400, 86400);
              cctz::time_zone f = cctz::fixed_time_zone(cctz::seconds(off));
              if (f.lookup(mk(0)).offset != off) o.bad.push_back("fixed_time_zone(" + std::to_string(off) + ") offset");
              break;
            }
            default: {
              cctz::time_zone d;
              if (!(d == cctz::utc_time_zone())) o.bad.push_back("default time_zone != utc");
              break;
            }
          }
          ++o.ops;
        }
        if (r.chance(0.3)) std::this_thread::yield();
        if (r.chance(0.05)) std::this_thread::sleep_for(std::chrono::microseconds(r.range(1, 200)));
      }
    });
  }
  for (auto& t : th) t.join();
  zsrc::st().logging.store(false);
  zsrc::st().frozen.store(false);
  ctx.stat("C13.rounds");
  ctx.stat("C13.threads_started", static_cast<uint64_t>(k));
  long ops = 0;
  for (auto& o : outs) ops += o.ops;
  ctx.stat("C13.evaluations", static_cast<uint64_t>(ops));
  ctx.stat("C20.evaluations", static_cast<uint64_t>(ops));
  for (auto& o : outs)
    for (auto& b : o.bad) ctx.viol("C13", "result-differs-from-single-threaded:stress", "round=" + std::to_string(round) + " k=" + std::to_string(k) + " " + b);
  // identity across threads
  for (auto& ne : names) {
    const cctz::time_zone* first = nullptr;
    for (auto& o : outs) {
      auto it = o.got.find(ne.name);
      if (it == o.got.end()) continue;
      if (!first) first = &it->second;
      else if (!(*first == it->second))
        ctx.viol("C13", "threads-hold-unequal-zones-for-one-name:stress", "round=" + std::to_string(round) + " k=" + std::to_string(k) + " name=" + ne.name);
    }
  }
  // factory contract on this round's log
  auto log = zsrc::collect_log();
  std::map<std::string, int> calls;
  LogVerdict lv = check_factory_log(log, &calls);
  ctx.stat("C20.factory_invocations", static_cast<uint64_t>(lv.enters));
  ctx.stat("C20.log_events", log.size());
  for (auto& v : lv.viol) ctx.viol("C20", v.first + ":stress", "round=" + std::to_string(round) + " k=" + std::to_string(k) + " " + v.second);
  ctx.distinct_local.insert(sup::mix(static_cast<uint64_t>(round), static_cast<uint64_t>(k)));
}

// ------------------------------------------------------------------ schedule enumeration mode
enum { ST_NEW = 0, ST_PARKED = 1, ST_RUNNING = 2, ST_DONE = 3 };
struct Sched {
  std::mutex mu;
  std::condition_variable cv;
  int k = 0;
  int running = -1;
  struct T {
    int state = ST_NEW;
    int point = -1;
    bool holds_load_lock = false;
  } t[4];
  bool free_run = false;  // set when the scheduler gives up controlling this execution: parks become no-ops
  unsigned long gen = 0;  // bumped on every park / completion
  unsigned parkset = 0;  // bit per park point id (0,2,3,5, 8 = factory gate)
  std::thread::id ids[4];
};
static Sched* g_s = nullptr;
static thread_local int t_idx = -1;
static bool g_has_load_lock = false;  // learnt from hook points 3/4, kept across schedules

static void sched_park(int point) {
  Sched& s = *g_s;
  if (getenv("VERIF_SCHED_DEBUG")) fprintf(stderr, "park thread=%d point=%d\n", t_idx, point);
  std::unique_lock<std::mutex> l(s.mu);
  if (s.free_run) return;
  s.t[t_idx].state = ST_PARKED;
  s.t[t_idx].point = point;
  s.running = -1;
  ++s.gen;
  s.cv.notify_all();
  s.cv.wait(l, [&] { return s.running == t_idx || s.free_run; });
  s.t[t_idx].state = ST_RUNNING;
}
static void sched_hook(int point, const char*) {
  if (t_idx < 0 || !g_s) return;
  Sched& s = *g_s;
  if (point == 3 || point == 4) {
    std::lock_guard<std::mutex> l(s.mu);
    g_has_load_lock = true;
    if (point == 4) s.t[t_idx].holds_load_lock = true;
  }
  if (point == 6 || point == 7 || point == 1) return;  // a cctz lock is held here: never park
  if (s.parkset & (1u << point)) sched_park(point);
}
static void sched_gate(const std::string&) {
  if (t_idx < 0 || !g_s) return;
  if (g_s->parkset & (1u << 8)) sched_park(8);
}

struct Program {
  std::vector<std::vector<int>> loads;  // per thread: indices into name table
  std::vector<std::pair<std::string, int>> names;  // (suffix, zone index | -1 invalid | -2 fixed | -3/-4 over-range fixed shape with/without data)
  const char* label;
  bool optimistic = false;  // do not trust the hooks' picture of the load lock: try to run a thread parked before it anyway
};

struct SchedResult {
  std::string choices;  // schedule string
  bool complete = true;
  int fallback_blocked = 0;
};

// Runs one schedule: follows `prefix` (thread indices), then always the lowest enabled thread.
// Returns the choices made and, per step, the number of enabled alternatives (for backtracking).
static SchedResult run_schedule(sup::Ctx& ctx, const Program& P, long serial, const std::vector<int>& prefix, std::vector<std::vector<int>>* enabled_at,
                                unsigned parkset, const std::vector<std::vector<std::string>>& ref) {
  Sched S;
  S.k = static_cast<int>(P.loads.size());
  S.parkset = parkset;
  g_s = &S;
  std::string pre = "V/D/" + std::to_string(serial) + "/";
  std::vector<std::string> full;
  for (auto& n : P.names) {
    if (n.second == -2) full.push_back(n.first);
    else if (n.second == -5) {
      full.push_back(fresh_fixed_name());
    } else if (n.second == -3 || n.second == -4) {
      full.push_back(over_range_name());
      if (n.second == -3) zsrc::put(full.back(), g_z[0].bytes);
    } else {
      full.push_back(pre + n.first);
      if (n.second >= 0) zsrc::put(pre + n.first, g_z[static_cast<size_t>(n.second) % g_z.size()].bytes);
    }
  }
  zsrc::st().logging.store(true);
  struct Out {
    std::vector<cctz::time_zone> tz;
    std::vector<bool> ok;
  };
  std::vector<Out> outs(static_cast<size_t>(S.k));
  std::vector<std::thread> th;
  for (int ti = 0; ti < S.k; ++ti) {
    th.emplace_back([&, ti]() {
      t_idx = ti;
      zsrc::thread_log_init();
      sched_park(9);  // start line
      for (int ni : P.loads[ti]) {
        cctz::time_zone tz = cctz::fixed_time_zone(cctz::seconds(7));
        bool ok = traced_load(full[ni], &tz);
        outs[ti].tz.push_back(tz);
        outs[ti].ok.push_back(ok);
        std::lock_guard<std::mutex> l(S.mu);
        S.t[ti].holds_load_lock = false;
      }
      std::lock_guard<std::mutex> l(S.mu);
      S.t[ti].state = ST_DONE;
      S.running = -1;
      ++S.gen;
      S.cv.notify_all();
      t_idx = -1;
    });
  }
  SchedResult R;
  {
    std::unique_lock<std::mutex> l(S.mu);
    // wait for all threads at the start line
    S.cv.wait(l, [&] {
      for (int i = 0; i < S.k; ++i)
        if (S.t[i].state != ST_PARKED) return false;
      return true;
    });
    size_t step = 0;
    for (;;) {
      std::vector<int> en;
      bool all_done = true;
      for (int i = 0; i < S.k; ++i) {
        if (S.t[i].state != ST_DONE) all_done = false;
        if (S.t[i].state != ST_PARKED) continue;
        // a thread parked just before the load lock cannot make progress while another thread holds it
        bool held_by_other = false;
        for (int j = 0; j < S.k; ++j) held_by_other = held_by_other || (j != i && S.t[j].holds_load_lock);
        if (!P.optimistic && g_has_load_lock && held_by_other && (S.t[i].point == 2 || S.t[i].point == 3)) continue;
        en.push_back(i);
      }
      if (all_done) break;
      if (en.empty()) {
        // every live thread is running (presumed blocked) or disabled: wait, bounded, for any state change
        unsigned long g0 = S.gen;
        bool progressed = S.cv.wait_for(l, std::chrono::seconds(8), [&] { return S.gen != g0; });
        if (!progressed) {
          // Nothing moves under the scheduler's control. Either the program under test is deadlocked, or the
          // scheduler's picture of the loader's locks does not fit this code (a thread it thinks can run is blocked by
          // one it holds back). Decide by letting go: with every thread running freely a real deadlock persists.
          S.free_run = true;
          S.cv.notify_all();
          bool finished = S.cv.wait_for(l, std::chrono::seconds(30), [&] {
            for (int i = 0; i < S.k; ++i)
              if (S.t[i].state != ST_DONE) return false;
            return true;
          });
          if (!finished) {
            ctx.viol("C13", "deadlock:sched", "program=" + std::string(P.label) + " schedule=" + R.choices + " no thread makes progress even when all run freely");
            ctx.flush();
            fflush(nullptr);
            _exit(3);  // the threads cannot be recovered: abandon this worker process
          }
          ctx.stat("C13.schedules_finished_in_free_run");
          R.complete = false;
          R.choices += "F";
          break;
        }
        continue;
      }
      int pick = en[0];
      if (step < prefix.size()) {
        bool found = false;
        for (int e : en) found = found || e == prefix[step];
        if (found) pick = prefix[step];
        else R.complete = false;  // prefix not realisable (enabledness changed): still a valid execution
      }
      if (enabled_at) {
        if (enabled_at->size() <= step) enabled_at->resize(step + 1);
        (*enabled_at)[step] = en;
      }
      R.choices += static_cast<char>('0' + pick);
      ++step;
      S.running = pick;
      S.cv.notify_all();
      // wait until that thread parks again or finishes; if it blocks on a lock we do not model, fall back
      bool back = S.cv.wait_for(l, std::chrono::milliseconds(P.optimistic ? 150 : g_has_load_lock ? 1500 : 300), [&] { return S.running == -1; });
      if (!back) {
        ++R.fallback_blocked;
        S.running = -1;  // treat as blocked: others may be scheduled; it parks itself when it gets through
      }
    }
  }
  for (auto& t : th) t.join();
  g_s = nullptr;
  zsrc::st().logging.store(false);
  // ---- verdicts for this schedule
  ctx.stat("C13.evaluations");
  ctx.stat("C20.evaluations");
  ctx.stat("C13.schedules");
  std::map<int, const cctz::time_zone*> first_by_name;
  for (int ti = 0; ti < S.k; ++ti) {
    for (size_t j = 0; j < P.loads[ti].size(); ++j) {
      int ni = P.loads[ti][j];
      int zi = P.names[ni].second;
      bool expect_ok = zi != -1 && zi != -4;
      if (zi == -3) zi = 0;
      const cctz::time_zone& tz = outs[ti].tz[j];
      if (outs[ti].ok[j] != expect_ok)
        ctx.viol("C13", "load-result-differs:sched", "program=" + std::string(P.label) + " schedule=" + R.choices + " thread=" + std::to_string(ti) + " name=" + full[ni]);
      if (!expect_ok && !(tz == cctz::utc_time_zone())) ctx.viol("C13", "failed-load-not-utc:sched", "schedule=" + R.choices);
      auto it = first_by_name.find(ni);
      if (it == first_by_name.end()) first_by_name[ni] = &tz;
      else if (!(*it->second == tz))
        ctx.viol("C13", "threads-hold-unequal-zones-for-one-name:sched", "program=" + std::string(P.label) + " schedule=" + R.choices + " name=" + full[ni]);
      if (expect_ok && zi >= 0) {
        for (int q : {0, 1, 2, 4, 13, 27}) {
          std::string a = query(tz, g_z[static_cast<size_t>(zi) % g_z.size()], q);
          if (a != ref[static_cast<size_t>(zi) % g_z.size()][q])
            ctx.viol("C13", "result-differs-from-single-threaded:sched", "program=" + std::string(P.label) + " schedule=" + R.choices + " name=" + full[ni] + " query=" + std::to_string(q));
        }
      }
    }
  }
  // repeat loads afterwards: equal zones, no further factory call
  auto log = zsrc::collect_log();
  std::map<std::string, int> calls;
  LogVerdict lv = check_factory_log(log, &calls);
  long before = zsrc::st().factory_calls.load();
  for (auto& kv : first_by_name) {
    cctz::time_zone tz;
    cctz::load_time_zone(full[kv.first], &tz);
    if (!(tz == *kv.second)) ctx.viol("C13", "repeat-load-unequal:sched", "schedule=" + R.choices + " name=" + full[kv.first]);
  }
  if (zsrc::st().factory_calls.load() != before)
    ctx.viol("C20", "factory-called-again-on-repeat-load:sched", "program=" + std::string(P.label) + " schedule=" + R.choices);
  ctx.stat("C20.factory_invocations", static_cast<uint64_t>(lv.enters));
  ctx.stat("C20.log_events", log.size());
  for (auto& v : lv.viol) ctx.viol("C20", v.first + ":sched", "program=" + std::string(P.label) + " schedule=" + R.choices + " " + v.second);
  if (R.fallback_blocked) ctx.stat("C13.schedules_with_timeout_fallback");
  for (auto& n : full) zsrc::erase(n);
  return R;
}

static std::vector<Program> programs(int kmax) {
  std::vector<Program> ps;
  // names: A, B valid; A2 alias of A's bytes; bad invalid; fixed
  std::vector<std::pair<std::string, int>> names = {{"A", 0}, {"B", 1}, {"A2", 0}, {"bad", -1}, {"Fixed/UTC-24:00:00", -2}, {"<over>", -3}, {"<overbad>", -4}, {"<fresh-fixed>", -5}};
  ps.push_back({{{0}, {0}}, names, "2:A|A"});
  ps.push_back({{{0}, {1}}, names, "2:A|B"});
  ps.push_back({{{0, 0}, {0}}, names, "2:AA|A"});
  ps.push_back({{{3}, {3}}, names, "2:bad|bad"});
  ps.push_back({{{0}, {2}}, names, "2:A|A2"});
  ps.push_back({{{4}, {0}}, names, "2:fixed|A"});
  ps.push_back({{{0, 1}, {1, 0}}, names, "2:AB|BA"});
  ps.push_back({{{5}, {5}}, names, "2:over|over"});
  ps.push_back({{{6}, {6}}, names, "2:overbad|overbad"});
  ps.push_back({{{7}, {7}}, names, "2:fx|fx"});
  ps.push_back({{{7}, {0}}, names, "2:fx|A"});
  ps.push_back({{{7}, {7}}, names, "opt2:fx|fx", true});
  ps.push_back({{{0}, {0}}, names, "opt2:A|A", true});
  ps.push_back({{{0}, {1}}, names, "opt2:A|B", true});
  ps.push_back({{{5}, {5}}, names, "opt2:over|over", true});
  ps.push_back({{{5}, {0}}, names, "opt2:over|A", true});
  if (kmax >= 3) {
    ps.push_back({{{0}, {0}, {0}}, names, "3:A|A|A"});
    ps.push_back({{{0}, {0}, {1}}, names, "3:A|A|B"});
    ps.push_back({{{3}, {3}, {0}}, names, "3:bad|bad|A"});
    ps.push_back({{{0, 1}, {1}, {0}}, names, "3:AB|B|A"});
  }
  if (kmax >= 4) {
    ps.push_back({{{0}, {0}, {0}, {0}}, names, "4:A|A|A|A"});
    ps.push_back({{{0}, {0}, {1}, {1}}, names, "4:A|A|B|B"});
  }
  return ps;
}

int main(int argc, char** argv) {
  sup::Args a(argc, argv);
  std::string mode = a.get("mode", "stress");
  uint64_t seed = static_cast<uint64_t>(a.getl("seed", 0));
  sup::Options opt = sup::options_from(a);
  {
    std::ifstream f(a.get("zones"));
    std::string line;
    while (std::getline(f, line)) {
      std::istringstream ss(line);
      ZBytes z;
      std::string path;
      std::getline(ss, z.cls, '\t');
      std::getline(ss, z.name, '\t');
      std::getline(ss, path, '\t');
      if (z.cls == "F" || z.cls == "S-ancient") continue;
      if (!zsrc::read_file(path, &z.bytes)) continue;
      orc::Zone Z;
      if (!Z.init(z.bytes)) continue;
      // instants around the transitions + a few far ones
      for (size_t i = 0; i < Z.f.times.size(); i += std::max<size_t>(1, Z.f.times.size() / 10))
        for (int d : {-1, 0, 1}) z.inst.push_back(Z.f.times[i] + d);
      for (int64_t t : {(int64_t)0, (int64_t)1700000000, (int64_t)4102444800LL, (int64_t)-2208988800LL, (int64_t)32503680000LL, (int64_t)1 << 40})
        z.inst.push_back(t);
      g_z.push_back(z);
      if (g_z.size() >= 24) break;
    }
  }
  if (g_z.size() < 2) {
    fprintf(stderr, "need at least two zones\n");
    return 2;
  }
#if defined(__SANITIZE_THREAD__)
  const bool tsan = true;
#else
  const bool tsan = false;
#endif
  if (mode == "stress") {
    long rounds = a.getl("rounds", 20);
    std::vector<int> ks = {2, 4, 8, 16, 64};
    long ncases = rounds * static_cast<long>(ks.size());
    return sup::supervise(ncases, opt, [&](long c, sup::Ctx& ctx) {
      // single-threaded reference answers (computed in this worker before any thread exists)
      static std::vector<std::vector<std::string>> ref;
      if (ref.empty()) {
        for (size_t zi = 0; zi < g_z.size(); ++zi) {
          std::string n = "V/C/ref/z" + std::to_string(zi);
          zsrc::put(n, g_z[zi].bytes);
          cctz::time_zone tz;
          cctz::load_time_zone(n, &tz);
          std::vector<std::string> v;
          for (int q = 0; q < kQueries; ++q) v.push_back(query(tz, g_z[zi], q));
          ref.push_back(v);
        }
        cctz_verif_load_hook = stress_hook;
        // widen the window between the loader's critical sections
        zsrc::st().gate = [](const std::string& n) {
          unsigned h = static_cast<unsigned>(sup::fnvs(n));
          if (h % 3 == 0) std::this_thread::yield();
          if (h % 7 == 0) std::this_thread::sleep_for(std::chrono::microseconds(50 + h % 200));
        };
      }
      long round = c / static_cast<long>(ks.size());
      int k = ks[static_cast<size_t>(c) % ks.size()];
      ctx.set_case("class=stress op=round round=%ld k=%d tsan=%d", round, k, tsan ? 1 : 0);
      long races_before = g_first_load_races.load();
      stress_round(ctx, seed, round, k, ref);
      ctx.stat("C13.first_load_races_observed", static_cast<uint64_t>(g_first_load_races.load() - races_before));
      ctx.stat("C13.distinct_nontrivial", 1);
      ctx.stat("C20.distinct_nontrivial", 1);
      if (tsan) ctx.stat("C13.rounds_under_tsan");
      if (c == 0) ctx.sample("C13", "stress round 0: k=2 threads x 60 ops over 15 names (valid, alias, invalid, garbage, fixed, UTC) + 4 shared zones; all answers compared with the single-threaded reference");
      if (c == 0) ctx.sample("C20", "factory event log of one round checked offline: once per name, no overlap, on the loading thread, never for UTC/fixed names");
    });
  }
  if (mode == "cold") {
    // Cold start: the very first cctz calls of a process are made concurrently (function-local statics, lazily
    // created map and mutexes). One fresh grandchild process per round; this worker itself never calls cctz.
    long rounds = a.getl("rounds", 100);
    return sup::supervise(rounds, opt, [&](long c, sup::Ctx& ctx) {
      int k = (c % 3 == 0) ? 2 : (c % 3 == 1 ? 4 : 16);
      ctx.set_case("class=cold op=first-calls round=%ld k=%d tsan=%d", c, k, tsan ? 1 : 0);
      fflush(nullptr);
      pid_t pid = fork();
      if (pid == 0) {
        const ZBytes& zb = g_z[static_cast<size_t>(c) % g_z.size()];
        zsrc::put("V/C/cold/z", zb.bytes);
        zsrc::st().frozen.store(true);
        Barrier bar(k);
        std::vector<std::thread> th;
        std::vector<cctz::time_zone> utcs(static_cast<size_t>(k)), loaded(static_cast<size_t>(k));
        std::vector<int> bad(static_cast<size_t>(k), 0);
        for (int ti = 0; ti < k; ++ti) {
          th.emplace_back([&, ti]() {
            bar.wait();
            switch ((ti + c) % 5) {
              case 0: utcs[ti] = cctz::utc_time_zone(); break;
              case 1: utcs[ti] = cctz::fixed_time_zone(cctz::seconds(0)); break;
              case 2: {
                cctz::time_zone d;
                if (d.lookup(mk(0)).offset != 0 || d.name() != "UTC") bad[ti] = 1;
                utcs[ti] = cctz::utc_time_zone();
                break;
              }
              case 3: {
                cctz::time_zone l = cctz::local_time_zone();
                (void)l;
                utcs[ti] = cctz::utc_time_zone();
                break;
              }
              default: break;
            }
            if (!cctz::load_time_zone("V/C/cold/z", &loaded[ti])) bad[ti] = 2;
            if (cctz::fixed_time_zone(cctz::seconds(3600 * (ti % 3 + 1))).lookup(mk(0)).offset != 3600 * (ti % 3 + 1)) bad[ti] = 3;
            if ((ti + c) % 5 == 4) utcs[ti] = cctz::utc_time_zone();
          });
        }
        for (auto& t : th) t.join();
        int rc = 0;
        for (int ti = 0; ti < k; ++ti) {
          if (bad[ti]) rc = 10 + bad[ti];
          if (!(utcs[ti] == cctz::utc_time_zone()) || utcs[ti].name() != "UTC") rc = 20;
          if (!(loaded[ti] == loaded[0])) rc = 21;
          if (query(loaded[ti], zb, ti % kQueries) != query(loaded[0], zb, ti % kQueries)) rc = 22;
        }
        fflush(nullptr);
        _exit(rc);
      }
      int st = 0;
      waitpid(pid, &st, 0);
      ctx.stat("C13.evaluations", static_cast<uint64_t>(k) * 4);
      ctx.stat("C13.cold_start_rounds");
      ctx.stat("C13.distinct_nontrivial");
      if (tsan) ctx.stat("C13.rounds_under_tsan");
      if (!WIFEXITED(st) || WEXITSTATUS(st) != 0) {
        // exit code 66 is ThreadSanitizer's "reports were printed" status: the report itself is read from the log
        if (WIFEXITED(st) && WEXITSTATUS(st) == 66) return;
        ctx.viol("C13", "cold-start-result-differs", "round=" + std::to_string(c) + " k=" + std::to_string(k) + " child status=" + std::to_string(st));
      }
    });
  }
  if (mode == "hammer") {
    // Hint hammer: k threads share ONE zone object; each thread stays inside its own stretch of the transition table
    // (so the per-direction hints of the threads differ) and repeats lookup(t) / lookup(cs) in a tight loop, comparing
    // every answer with the one computed single-threaded beforehand on a second copy of the same bytes. No strings,
    // no locks, nothing shared but the zone: a hint that is re-read, torn or used unvalidated shows as a wrong answer.
    long rounds = a.getl("rounds", 12);
    long iters = a.getl("iters", 200000);
    return sup::supervise(rounds, opt, [&](long c, sup::Ctx& ctx) {
      // the zone with the most recorded transitions among the first ones, rotated per round
      std::vector<size_t> order(g_z.size());
      for (size_t i = 0; i < order.size(); ++i) order[i] = i;
      std::stable_sort(order.begin(), order.end(), [&](size_t x, size_t y) { return g_z[x].inst.size() > g_z[y].inst.size(); });
      const ZBytes& zb = g_z[order[static_cast<size_t>(c) % std::min<size_t>(order.size(), 6)]];
      int k = (c % 3 == 0) ? 2 : (c % 3 == 1 ? 4 : 8);
      ctx.set_case("class=hammer op=shared-zone-hints round=%ld k=%d zone=%s tsan=%d", c, k, zb.name.c_str(), tsan ? 1 : 0);
      std::string n1 = "V/C/hammer/" + std::to_string(c) + "/shared", n2 = "V/C/hammer/" + std::to_string(c) + "/reference";
      zsrc::put(n1, zb.bytes);
      zsrc::put(n2, zb.bytes);
      cctz::time_zone shared, refz;
      if (!cctz::load_time_zone(n1, &shared) || !cctz::load_time_zone(n2, &refz)) {
        ctx.note("hammer: zone did not load");
        ctx.stat("harness_errors");
        return;
      }
      orc::Zone Z;
      Z.init(zb.bytes);
      std::vector<int64_t> T(Z.f.times.begin(), Z.f.times.end());
      if (T.size() < 4) {
        ctx.stat("C13.hammer_rounds_skipped_few_transitions");
        return;
      }
      struct Probe {
        int64_t t;
        cctz::time_zone::absolute_lookup al;
        cctz::civil_second cs;
        cctz::time_zone::civil_lookup cl;
      };
      std::vector<std::vector<Probe>> tab(static_cast<size_t>(k));
      sup::Rng rng(seed, static_cast<uint64_t>(c) + 4242);
      for (int ti = 0; ti < k; ++ti) {
        // thread ti owns the stretch of the table around transition index (ti+1) * size / (k+1)
        size_t idx = (static_cast<size_t>(ti) + 1) * T.size() / (static_cast<size_t>(k) + 1);
        for (int j = 0; j < 24; ++j) {
          size_t i = std::min(T.size() - 1, idx + static_cast<size_t>(j % 3));
          int64_t lo = T[i], hi = (i + 1 < T.size()) ? T[i + 1] : T[i] + 86400 * 200;
          if (hi - lo < 4) continue;
          int64_t t = (j < 6) ? lo + j : (j < 12 ? hi - 1 - (j - 6) : lo + rng.range(0, hi - lo - 1));
          Probe p;
          p.t = t;
          p.al = refz.lookup(mk(t));
          p.cs = p.al.cs;
          p.cl = refz.lookup(p.cs);
          tab[static_cast<size_t>(ti)].push_back(p);
        }
      }
      std::vector<std::string> bad(static_cast<size_t>(k));
      std::vector<long> done(static_cast<size_t>(k), 0);
      Barrier bar(k);
      std::vector<std::thread> th;
      for (int ti = 0; ti < k; ++ti) {
        th.emplace_back([&, ti]() {
          const auto& mine = tab[static_cast<size_t>(ti)];
          if (mine.empty()) return;
          bar.wait();
          for (long it = 0; it < iters; ++it) {
            const Probe& p = mine[static_cast<size_t>(it) % mine.size()];
            auto al = shared.lookup(mk(p.t));
            auto cl = shared.lookup(p.cs);
            ++done[static_cast<size_t>(ti)];
            bool ok = al.offset == p.al.offset && al.is_dst == p.al.is_dst && al.cs == p.al.cs && cl.kind == p.cl.kind && cl.pre == p.cl.pre &&
                      cl.trans == p.cl.trans && cl.post == p.cl.post;
            if (!ok && bad[static_cast<size_t>(ti)].empty()) {
              std::ostringstream o;
              o << "thread " << ti << " iteration " << it << " t=" << p.t << " cs=" << cs_str(p.cs) << ": lookup(t) offset " << al.offset << " (single-threaded "
                << p.al.offset << "), lookup(cs) kind " << cl.kind << " pre " << un(cl.pre) << " trans " << un(cl.trans) << " post " << un(cl.post)
                << " (single-threaded kind " << p.cl.kind << " pre " << un(p.cl.pre) << " trans " << un(p.cl.trans) << " post " << un(p.cl.post) << ")";
              bad[static_cast<size_t>(ti)] = o.str();
            }
          }
        });
      }
      for (auto& t : th) t.join();
      long total = 0;
      for (long d : done) total += d;
      ctx.stat("C13.evaluations", static_cast<uint64_t>(total) * 2);
      ctx.stat("C13.hammer_lookups", static_cast<uint64_t>(total) * 2);
      ctx.stat("C13.hammer_rounds");
      ctx.stat("C13.distinct_nontrivial");
      if (tsan) ctx.stat("C13.rounds_under_tsan");
      for (auto& b : bad)
        if (!b.empty()) ctx.viol("C13", "result-differs-from-single-threaded:hint-hammer", "round=" + std::to_string(c) + " k=" + std::to_string(k) + " zone=" + zb.name + " " + b);
      if (c == 0) ctx.sample("C13", "hint hammer round 0: " + std::to_string(k) + " threads x " + std::to_string(iters) + " lookup(t)+lookup(cs) on one shared " + zb.name + ", each thread in its own stretch of the table");
    });
  }
  if (mode == "slow") {
    // A zone source that takes seconds (a slow disk, a network file system): the other loaders wait for it, however
    // long it takes; they neither enter the source meanwhile nor give up. Real time is the input here.
    long hold_ms = a.getl("hold-ms", 6000);
    return sup::supervise(2, opt, [&](long c, sup::Ctx& ctx) {
      ctx.set_case("class=slow op=slow-zone-source hold=%ldms %s", hold_ms, c == 0 ? "other-name" : "same-name");
      std::string pre = "V/C/slow/" + std::to_string(c) + "/";
      zsrc::put(pre + "slow", g_z[0].bytes);
      zsrc::put(pre + "other", g_z[1 % g_z.size()].bytes);
      zsrc::st().gate = [hold_ms](const std::string& n) {
        if (n.size() >= 5 && n.compare(n.size() - 5, 5, "/slow") == 0) std::this_thread::sleep_for(std::chrono::milliseconds(hold_ms));
      };
      zsrc::st().frozen.store(true);
      zsrc::st().logging.store(true);
      cctz::time_zone za = cctz::fixed_time_zone(cctz::seconds(7)), zb = za;
      bool oka = false, okb = false;
      std::string nb = c == 0 ? pre + "other" : pre + "slow";
      std::thread ta([&]() {
        zsrc::thread_log_init();
        oka = traced_load(pre + "slow", &za);
      });
      std::this_thread::sleep_for(std::chrono::milliseconds(300));
      std::thread tb([&]() {
        zsrc::thread_log_init();
        okb = traced_load(nb, &zb);
      });
      ta.join();
      tb.join();
      zsrc::st().logging.store(false);
      zsrc::st().frozen.store(false);
      ctx.stat("C13.evaluations", 2);
      ctx.stat("C20.evaluations", 2);
      ctx.stat("C13.slow_source_rounds");
      ctx.stat("C20.slow_source_rounds");
      ctx.stat("C13.distinct_nontrivial");
      ctx.stat("C20.distinct_nontrivial");
      if (!oka || !okb || za.name() != pre + "slow" || zb.name() != nb)
        ctx.viol("C13", "load-result-differs:slow-source", "a loader waiting for a slow zone source got ok=" + std::to_string(okb) + " name=" + zb.name() + " (the slow load: ok=" + std::to_string(oka) + ")");
      if (c == 1 && !(za == zb)) ctx.viol("C13", "threads-hold-unequal-zones-for-one-name:slow-source", nb);
      auto log = zsrc::collect_log();
      std::map<std::string, int> calls;
      LogVerdict lv = check_factory_log(log, &calls);
      ctx.stat("C20.factory_invocations", static_cast<uint64_t>(lv.enters));
      for (auto& v : lv.viol) ctx.viol("C20", v.first + ":slow-source", v.second);
    });
  }
  if (mode == "exit") {
    // Use during process exit: worker threads keep using UTC, fixed-offset and loaded zones (values checked) while the
    // main thread runs exit(): atexit handlers and the destructors of static objects. The library keeps its singletons
    // alive for ever, so nothing may go wrong; a singleton with an exit-time destructor shows as a crash, a sanitizer
    // report or a wrong value. The workers touch nothing of the harness that has a destructor.
    long rounds = a.getl("rounds", 24);
    return sup::supervise(rounds, opt, [&](long c, sup::Ctx& ctx) {
      int k = (c % 2 == 0) ? 3 : 8;
      ctx.set_case("class=exit op=use-during-exit round=%ld k=%d", c, k);
      fflush(nullptr);
      pid_t pid = fork();
      if (pid == 0) {
        // registered before the library is first used: runs after the destructors of anything the library creates later
        atexit([] { std::this_thread::sleep_for(std::chrono::milliseconds(40)); });
        const ZBytes& zb = g_z[static_cast<size_t>(c) % g_z.size()];
        zsrc::put("V/C/exit/z", zb.bytes);
        struct Shared {
          cctz::time_zone z, utc, fx;
          std::string utc_text, fx_text, z_text;
          int64_t t;
        };
        Shared* sh = new Shared;  // never destroyed
        sh->t = 1700000000 + c * 86400;
        if (!cctz::load_time_zone("V/C/exit/z", &sh->z)) _exit(40);
        sh->utc = cctz::utc_time_zone();
        sh->fx = cctz::fixed_time_zone(cctz::seconds(3600));
        const char* const kFmt = "%Y-%m-%d %H:%M:%S %z %Z";
        sh->utc_text = cctz::format(kFmt, mk(sh->t), sh->utc);
        sh->fx_text = cctz::format(kFmt, mk(sh->t), sh->fx);
        sh->z_text = cctz::format(kFmt, mk(sh->t), sh->z);
        for (int ti = 0; ti < k; ++ti) {
          std::thread([sh, kFmt, ti]() {
            for (long it = 0;; ++it) {
              bool ok = true;
              switch ((it + ti) % 6) {
                case 0: ok = cctz::format(kFmt, mk(sh->t), sh->utc) == sh->utc_text; break;
                case 1: ok = cctz::format(kFmt, mk(sh->t), cctz::utc_time_zone()) == sh->utc_text && cctz::utc_time_zone() == sh->utc; break;
                case 2: {
                  cctz::time_zone d;
                  ok = d == sh->utc && d.lookup(mk(sh->t)).offset == 0 && d.name() == "UTC";
                  break;
                }
                case 3: {
                  tp_t tp;
                  ok = cctz::parse("%Y-%m-%d %H:%M:%S %z", "2023-11-14 22:13:20 +0000", sh->z, &tp) && un(tp) == 1700000000;
                  break;
                }
                case 4: {
                  cctz::time_zone l;
                  ok = cctz::load_time_zone("UTC", &l) && l == sh->utc && cctz::fixed_time_zone(cctz::seconds(0)) == sh->utc &&
                       cctz::format(kFmt, mk(sh->t), cctz::fixed_time_zone(cctz::seconds(3600))) == sh->fx_text;
                  break;
                }
                default: ok = cctz::format(kFmt, mk(sh->t), sh->z) == sh->z_text && sh->z.lookup(sh->z.lookup(mk(sh->t)).cs).pre == mk(sh->t); break;
              }
              if (!ok) _exit(33);
            }
          }).detach();
        }
        std::this_thread::sleep_for(std::chrono::milliseconds(15));
        exit(0);  // atexit handlers and static destructors run while the workers go on
      }
      int st = 0;
      waitpid(pid, &st, 0);
      ctx.stat("C13.evaluations", static_cast<uint64_t>(k));
      ctx.stat("C13.exit_rounds");
      ctx.stat("C13.distinct_nontrivial");
      if (!WIFEXITED(st) || WEXITSTATUS(st) != 0) {
        std::string how = WIFSIGNALED(st) ? "signal " + std::to_string(WTERMSIG(st)) : "exit status " + std::to_string(WEXITSTATUS(st));
        ctx.viol("C13", WIFEXITED(st) && WEXITSTATUS(st) == 33 ? "wrong-answer-during-process-exit" : "crash-during-process-exit",
                 "round=" + std::to_string(c) + " k=" + std::to_string(k) + ": workers using UTC/fixed/loaded zones while main runs exit(): child ended with " + how);
      }
    });
  }
  if (mode == "overtake") {
    // A waiter that has seen its cache miss is held just before the load lock while another thread performs N
    // first-time loads, the last of them for the waiter's own name; then the waiter goes on. Whatever N is, the
    // waiter must find the name loaded (no second factory call). N covers the wrap-around of narrow counters.
    std::vector<long> ns = {1, 2, 3, 15, 16, 17, 127, 128, 129, 255, 256, 257, 511, 512, 513, 1024};
    if (a.get("tier", "quick") == "thorough")
      for (long v : {4095L, 4096L, 32767L, 32768L, 65535L, 65536L, 65537L}) ns.push_back(v);
    return sup::supervise(static_cast<long>(ns.size()) * 2, opt, [&](long c, sup::Ctx& ctx) {
      static std::vector<std::vector<std::string>> ref;
      if (ref.empty()) {
        for (size_t zi = 0; zi < g_z.size(); ++zi) {
          std::string n = "V/D/ref/z" + std::to_string(zi);
          zsrc::put(n, g_z[zi].bytes);
          cctz::time_zone tz;
          cctz::load_time_zone(n, &tz);
          std::vector<std::string> v;
          for (int q = 0; q < kQueries; ++q) v.push_back(query(tz, g_z[zi], q));
          ref.push_back(v);
        }
        (void)cctz::fixed_time_zone(cctz::seconds(7));  // the loader threads' placeholder zone: cached before any schedule
        cctz_verif_load_hook = sched_hook;
        zsrc::st().gate = sched_gate;
      }
      long N = ns[static_cast<size_t>(c / 2)];
      bool x_first = (c % 2) == 1;  // the waiter's name is loaded first or last among the N
      ctx.set_case("class=overtake op=waiter-overtaken-by-N-loads N=%ld waiter-name-%s", N, x_first ? "first" : "last");
      Program P;
      P.label = "overtake";
      P.names.push_back({"X", 0});
      for (long i = 1; i < N; ++i) P.names.push_back({"n" + std::to_string(i), static_cast<int>(i % static_cast<long>(g_z.size()))});
      std::vector<int> other;
      if (x_first) other.push_back(0);
      for (long i = 1; i < N; ++i) other.push_back(static_cast<int>(i));
      if (!x_first) other.push_back(0);
      P.loads = {{0}, other};
      std::vector<int> prefix = {0};
      for (long i = 0; i < N + 1; ++i) prefix.push_back(1);
      prefix.push_back(0);
      SchedResult R = run_schedule(ctx, P, 900000000L + c, prefix, nullptr, 1u << 3, ref);
      ctx.stat("C20.overtake_cases");
      ctx.stat("C20.overtake_loads", static_cast<uint64_t>(N));
      ctx.stat("C13.distinct_nontrivial");
      ctx.stat("C20.distinct_nontrivial");
      // the intended order was realised iff the schedule is 0 1...1 0
      bool as_planned = R.choices.size() >= static_cast<size_t>(N) + 2 && R.choices[0] == '0' && R.choices.back() == '0' &&
                        R.choices.find('0', 1) == R.choices.size() - 1;
      if (as_planned) ctx.stat("C20.overtake_cases_realised_as_planned");
      if (c == 0) ctx.sample("C20", "overtake N=1: schedule " + R.choices);
      if (!as_planned) ctx.note("overtake N=" + std::to_string(N) + (x_first ? " first" : " last") + " realised as " + R.choices.substr(0, 60) + "... (" + std::to_string(R.choices.size()) + " steps, " + std::to_string(R.fallback_blocked) + " timeouts)");
    });
  }
  // schedule enumeration
  int kmax = static_cast<int>(a.getl("kmax", 3));
  std::vector<Program> ps = programs(kmax);
  // park-point sets: bit ids 0 (entry), 2 (cache miss), 3 (before load lock), 5 (impl built), 8 (factory gate), 9 start line
  struct Cfg {
    size_t prog;
    unsigned parkset;
    int c0, c1;
  };
  std::vector<Cfg> cfgs;
  for (size_t pi = 0; pi < ps.size(); ++pi) {
    int k = static_cast<int>(ps[pi].loads.size());
    unsigned parkset = (1u << 2) | (1u << 8) | (1u << 5);
    if (k <= 2) parkset |= (1u << 0) | (1u << 3);
    if (ps[pi].optimistic) parkset = (1u << 3) | (1u << 8);
    if (k >= 4) parkset = (1u << 2) | (1u << 8);
    for (int c0 = 0; c0 < k; ++c0)
      for (int c1 = 0; c1 < k; ++c1) cfgs.push_back({pi, parkset, c0, c1});
  }
  long cap = a.getl("max-schedules", 4000);  // per case
  return sup::supervise(static_cast<long>(cfgs.size()), opt, [&](long c, sup::Ctx& ctx) {
    static std::vector<std::vector<std::string>> ref;
    if (ref.empty()) {
      for (size_t zi = 0; zi < g_z.size(); ++zi) {
        std::string n = "V/D/ref/z" + std::to_string(zi);
        zsrc::put(n, g_z[zi].bytes);
        cctz::time_zone tz;
        cctz::load_time_zone(n, &tz);
        std::vector<std::string> v;
        for (int q = 0; q < kQueries; ++q) v.push_back(query(tz, g_z[zi], q));
        ref.push_back(v);
      }
      (void)cctz::fixed_time_zone(cctz::seconds(7));  // the loader threads' placeholder zone: cached before any schedule
      cctz_verif_load_hook = sched_hook;
      zsrc::st().gate = sched_gate;
    }
    const Cfg& cf = cfgs[c];
    const Program& P = ps[cf.prog];
    ctx.set_case("class=sched op=enumerate program=%s first-choices=%d%d", P.label, cf.c0, cf.c1);
    // stateless DFS below the forced two-step prefix
    std::vector<int> prefix = {cf.c0, cf.c1};
    long n = 0;
    long serial = c * 1000000L;
    std::set<std::string> seen;
    for (;;) {
      std::vector<std::vector<int>> enabled_at;
      SchedResult R = run_schedule(ctx, P, serial++, prefix, &enabled_at, cf.parkset, ref);
      ++n;
      if (R.choices.size() >= 2 && (R.choices[0] - '0' != cf.c0 || R.choices[1] - '0' != cf.c1)) {
        // the forced prefix was not realisable: this case is empty (another case covers that order)
        ctx.stat("C13.unrealisable_prefix_cases");
        break;
      }
      if (seen.insert(R.choices).second) {
        ctx.stat("C13.distinct_nontrivial");
        ctx.stat("C20.distinct_nontrivial");
        ctx.stat("C13.distinct_schedules");
      }
      if (n == 1 && c % 7 == 0) ctx.sample("C13", std::string("program ") + P.label + " schedule " + R.choices + " (thread index per step; park points: cache miss, inside factory, before insert)");
      // next schedule: backtrack to the deepest step with an untried alternative
      std::vector<int> ch;
      for (char x : R.choices)
        if (x != 'F') ch.push_back(x - '0');
      bool advanced = false;
      for (size_t i = ch.size(); i-- > 2;) {
        const std::vector<int>& en = enabled_at[i];
        size_t pos = 0;
        while (pos < en.size() && en[pos] != ch[i]) ++pos;
        if (pos + 1 < en.size()) {
          prefix.assign(ch.begin(), ch.begin() + static_cast<long>(i));
          prefix.push_back(en[pos + 1]);
          advanced = true;
          break;
        }
      }
      if (!advanced) {
        ctx.stat("C13.cases_enumerated_completely");
        break;
      }
      if (n >= cap) {
        ctx.stat("C13.cases_capped");
        break;
      }
    }
  });
}
