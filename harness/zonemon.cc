// Zone monitors: C01 C02 C03 C06 C10 C11. One case = one zone file.
//   zonemon --zones LIST --props C01,C02 --seed N --tier quick|thorough --out DIR [--workers N]
// LIST lines: <class>\t<name>\t<path>[\t<flags>]   flags: "abs" = also load by absolute path
#define VERIF_DEFINE_FACTORY
#include <chrono>
#include <cinttypes>
#include <fstream>
#include <iostream>
#include <sstream>
#include <unordered_set>

#include "cctz/civil_time.h"
#include "cctz/time_zone.h"
#include "oracle.h"
#include "sup.h"
#include "zsrc.h"

using orc::i128;
using orc::Civ;
typedef cctz::time_point<cctz::seconds> tp_t;
static inline tp_t mk(int64_t t) { return tp_t(cctz::seconds(t)); }
static inline int64_t un(tp_t tp) { return tp.time_since_epoch().count(); }
static inline cctz::civil_second to_cs(const Civ& c) {
  return cctz::civil_second(static_cast<int64_t>(c.y), c.m, c.d, c.H, c.M, c.S);
}
static inline Civ from_cs(const cctz::civil_second& c) {
  return Civ{(i128)c.year(), c.month(), c.day(), c.hour(), c.minute(), c.second()};
}
static const i128 SEC400 = (i128)146097 * 86400;

struct ZoneEnt {
  std::string cls, name, path, flags;
};

struct Props {
  bool c01 = false, c02 = false, c03 = false, c06 = false, c10 = false, c11 = false;
};

static std::string S(i128 v) { return orc::str(v); }

struct Mon {
  sup::Ctx& ctx;
  const ZoneEnt& ze;
  orc::Zone Z;
  cctz::time_zone tz;
  sup::Rng rng;
  bool thorough;
  Props P;
  std::vector<i128> brk;  // all breakpoints known for this zone (body + generated region)
  i128 civ_max_L, civ_min_L;
  bool count_distinct = true;

  Mon(sup::Ctx& c, const ZoneEnt& z, uint64_t seed, bool th, Props p)
      : ctx(c), ze(z), rng(seed, sup::fnvs(z.name)), thorough(th), P(p) {
    civ_max_L = orc::secs_from_civ(Civ{orc::I64MAX, 12, 31, 23, 59, 59});
    civ_min_L = orc::secs_from_civ(Civ{orc::I64MIN, 1, 1, 0, 0, 0});
  }

  std::string zid() const { return ze.cls + "/" + ze.name; }

  // ---------------------------------------------------------------- probes
  std::vector<int64_t> inst;
  std::vector<i128> civs;
  std::vector<orc::Change> near_changes;  // changes used to build civil probes
  size_t far_changes = 0;                 // rule changes at/beyond the end of the instant range

  void add_i(i128 t) {
    if (orc::fits64(t)) inst.push_back(static_cast<int64_t>(t));
  }
  void add_L(i128 L) {
    if (L >= civ_min_L && L <= civ_max_L) civs.push_back(L);
  }
  i128 year0() const {
    if (Z.f.times.empty()) return 1970;
    return orc::civ_from_secs((i128)Z.f.times.back() + (Z.has_px ? Z.px.std_off : 0)).y;
  }
  void add_change_civils(const orc::Change& c) {
    i128 o1 = c.before.off, o2 = c.after.off;
    for (i128 base : {c.T + o1, c.T + o2})
      for (int d : {-2, -1, 0, 1, 2}) add_L(base + d);
    add_L(c.T + (o1 + o2) / 2);
    if (o1 != o2) {
      i128 lo = std::min(o1, o2), hi = std::max(o1, o2);
      add_L(c.T + lo + rng.range(0, static_cast<int64_t>(hi - lo - 1)));
    }
    add_L(c.T + o1 - 3600);
    add_L(c.T + o2 + 3600);
  }

  void build_probes() {
    const auto& T = Z.f.times;
    static const int kD[] = {-86400, -3600, -2, -1, 0, 1, 2, 3600, 86400};
    for (size_t i = 0; i < T.size(); ++i) {
      for (int d : kD) add_i((i128)T[i] + d);
      if (i + 1 < T.size()) add_i(((i128)T[i] + T[i + 1]) / 2);
    }
    i128 Y0 = year0();
    std::vector<i128> rule_inst;
    if (Z.px_rules) {
      for (i128 y = Y0 - 1; y <= Y0 + 5; ++y)
        for (i128 b : {Z.start_of(y), Z.end_of(y)}) {
          rule_inst.push_back(b);
          for (int d : {-2, -1, 0, 1, 2, -3600, 3600}) add_i(b + d);
        }
      int stride = thorough ? 1 : 1;
      for (i128 y = Y0 + 6; y <= Y0 + 405; y += stride) {
        i128 b = (orc::fmod(y, 2) == 0) ? Z.start_of(y) : Z.end_of(y);
        rule_inst.push_back(b);
        if (y >= Y0 + 396 || thorough) {
          // both transitions of the years around the end of the generated range (and of its first 400-year image)
          i128 b2 = (orc::fmod(y, 2) == 0) ? Z.end_of(y) : Z.start_of(y);
          rule_inst.push_back(b2);
          for (int d : {-1, 0, 1}) add_i(b2 + d);
        }
        for (int d : {-1, 0, 1}) add_i(b + d);
        i128 j = orc::days_from_civil(y, 1, 1) * 86400;
        add_i(j + rng.range(0, 365 * 86400));
        add_i(j + rng.range(0, 365 * 86400));
      }
    }
    // 400-year multiples
    {
      std::vector<i128> base;
      if (Z.px_rules) {
        for (i128 y = Y0 + 1; y <= Y0 + 3; ++y) {
          base.push_back(Z.start_of(y));
          base.push_back(Z.end_of(y));
        }
      } else {
        i128 last = T.empty() ? 0 : (i128)T.back();
        base.push_back(last + 86400 * 200);
        base.push_back(last + 86400 * 500);
      }
      i128 kmax = (orc::I64MAX - base[0]) / SEC400;
      for (i128 k : {(i128)1, (i128)2, (i128)3, (i128)10, (i128)1000, (i128)1000000, (i128)500000000, kmax,
                     kmax - 1})
        for (i128 b : base) {
          if (k < 1) continue;
          for (int d : {-1, 0, 1}) add_i(b + k * SEC400 + d);
          if (Z.px_rules) rule_inst.push_back(b + k * SEC400);
        }
    }
    // specials and limits
    for (i128 b : {(i128)1 << 31, -((i128)1 << 31), (i128)1 << 59, -((i128)1 << 59), (i128)1 << 62,
                   -((i128)1 << 62), (i128)0, (i128)2147483647})
      for (int d : {-2, -1, 0, 1, 2}) add_i(b + d);
    int nend = thorough ? 400 : 60;
    for (int k = 0; k < nend; ++k) {
      add_i(orc::I64MAX - k);
      add_i(orc::I64MIN + k);
    }
    for (int k = 0; k < (thorough ? 600 : 150); ++k) {
      add_i(orc::I64MAX - rng.range(0, 2 * 86400));
      add_i(orc::I64MIN + rng.range(0, 2 * 86400));
    }
    for (int k = 0; k < 60; ++k) add_i((i128)(int64_t)rng.next());
    for (int k = 0; k < 40; ++k) add_i(rng.range(-4000000000LL, 8000000000LL));
    std::sort(inst.begin(), inst.end());
    inst.erase(std::unique(inst.begin(), inst.end()), inst.end());

    // breakpoints, for the non-triviality rule
    for (auto t : T) brk.push_back(t);
    for (auto t : rule_inst) brk.push_back(t);
    std::sort(brk.begin(), brk.end());

    // ---- civil probes
    std::vector<orc::Change> ch;
    if (!T.empty()) Z.changes((i128)T.front() - 1, (i128)T.back(), &ch);
    for (i128 r : rule_inst) Z.changes(r, r, &ch);
    near_changes = ch;
    for (auto& c : ch) add_change_civils(c);
    // rule changes of the last representable year and of its 400-year images beyond the instant range: there every
    // reading of a skipped/repeated civil time must saturate, whichever of them crossed the limit first
    if (Z.px_rules) {
      std::vector<orc::Change> far;
      const i128 ymax = orc::civ_from_secs(orc::I64MAX).y;
      for (i128 dy : {(i128)-400, (i128)0, (i128)1, (i128)400, (i128)800, (i128)4000, (i128)400 * 730692561})
        for (i128 b : {Z.start_of(ymax + dy), Z.end_of(ymax + dy)}) Z.changes(b, b, &far);
      for (auto& c : far) {
        add_change_civils(c);
        i128 lo = std::min(c.T + c.before.off, c.T + c.after.off), hi = std::max(c.T + c.before.off, c.T + c.after.off);
        for (int k = 0; k < 6; ++k) add_L(lo + rng.range(0, (int64_t)(hi - lo)));
      }
      far_changes = far.size();
    }
    // no-op recorded transitions too
    for (size_t i = 0; i < T.size(); ++i) {
      orc::Info a = Z.at(T[i]);
      for (int d : {-1, 0, 1}) add_L((i128)T[i] + a.off + d);
    }
    // images of a sample of instant probes
    for (size_t i = 0; i < inst.size(); i += (thorough ? 1 : 3)) {
      add_L((i128)inst[i] + Z.at(inst[i]).off);
    }
    // calendar-year boundaries around both ends of the rule-generated range and in its first images
    if (Z.px_rules) {
      for (i128 dy : {(i128)-1, (i128)0, (i128)1, (i128)2, (i128)399, (i128)400, (i128)401, (i128)402, (i128)403, (i128)404, (i128)801, (i128)802, (i128)1201})
        for (int d : {-3600, -2, -1, 0, 1, 2, 3600}) add_L(orc::days_from_civil(Y0 + dy, 1, 1) * 86400 + d);
    }
    // calendar anchors independent of the zone: year and leap-day boundaries in negative years, around year 0 and at
    // multiples of 400 (era arithmetic of civil differences), before and after the recorded data
    for (i128 y : {(i128)-1201, (i128)-800, (i128)-799, (i128)-401, (i128)-400, (i128)-399, (i128)-398, (i128)-101, (i128)-100, (i128)-4, (i128)-1, (i128)0, (i128)1, (i128)4,
                   (i128)100, (i128)400, (i128)401, (i128)1600, (i128)1900, (i128)2000, (i128)2100, (i128)2400, (i128)9999, (i128)10000}) {
      for (int d : {-3600, -1, 0, 1, 3600}) {
        add_L(orc::days_from_civil(y, 1, 1) * 86400 + d);
        add_L(orc::days_from_civil(y, 3, 1) * 86400 + d);
      }
      add_i(orc::days_from_civil(y, 1, 1) * 86400);
      add_i(orc::days_from_civil(y, 3, 1) * 86400 - 1);
    }
    // limits of the civil domain
    for (int k = 0; k < 6; ++k) {
      add_L(civ_max_L - k);
      add_L(civ_min_L + k);
    }
    for (int h = 0; h <= 26; ++h) {
      add_L(civ_max_L - (i128)h * 3600 - rng.range(0, 3599));
      add_L(civ_min_L + (i128)h * 3600 + rng.range(0, 3599));
    }
    // limits of the instant domain seen through every offset of the zone
    for (int32_t o : Z.offsets()) {
      for (int d : {-3, -2, -1, 0, 1, 2, 3, 3600, -3600, 86400, -86400}) {
        add_L(orc::I64MAX + o + d);
        add_L(orc::I64MIN + o + d);
      }
    }
    for (int k = 0; k < (thorough ? 300 : 60); ++k) {
      add_L(orc::I64MAX + rng.range(-2 * 86400, 2 * 86400));
      add_L(orc::I64MIN + rng.range(-2 * 86400, 2 * 86400));
    }
    // random huge years
    for (int k = 0; k < 40; ++k) {
      Civ c{(i128)(int64_t)rng.next(), (int)rng.range(1, 12), (int)rng.range(1, 28),
            (int)rng.range(0, 23), (int)rng.range(0, 59), (int)rng.range(0, 59)};
      add_L(orc::secs_from_civ(c));
    }
    std::sort(civs.begin(), civs.end());
    civs.erase(std::unique(civs.begin(), civs.end()), civs.end());
  }

  bool near_break(i128 t, i128 w = 86400) const {
    auto it = std::lower_bound(brk.begin(), brk.end(), t - w);
    return it != brk.end() && *it <= t + w;
  }
  bool in_generated_region(i128 t) const {
    return Z.px_rules && !Z.f.times.empty() && t >= Z.f.times.back();
  }
  static bool is_limit_probe(int64_t t) {
    const int64_t k59 = (int64_t)1 << 59, k31 = (int64_t)1 << 31, k62 = (int64_t)1 << 62;
    if (t > INT64_MAX - 2 * 86400 || t < INT64_MIN + 2 * 86400) return true;
    for (int64_t b : {k59, -k59, k31, -k31, k62, -k62})
      if (t >= b - 2 && t <= b + 2) return true;
    return false;
  }
  bool near_limits(i128 t) const {
    return t > orc::I64MAX - 2 * 86400 || t < orc::I64MIN + 2 * 86400;
  }

  // -------------------------------------------------------------------- C01
  std::string cmp_abs(int64_t t, const cctz::time_zone::absolute_lookup& al) {
    orc::Info e = Z.at(t);
    Civ ec = orc::civ_from_secs((i128)t + e.off);
    Civ gc = from_cs(al.cs);
    if (al.offset != e.off || al.is_dst != e.dst || std::string(al.abbr ? al.abbr : "") != e.abbr ||
        gc != ec) {
      std::ostringstream d;
      d << "zone=" << zid() << " t=" << t << " expected=" << orc::str(e) << " " << orc::str(ec)
        << " got=(" << al.offset << "," << (al.is_dst ? "dst" : "std") << ","
        << (al.abbr ? al.abbr : "") << ") " << orc::str(gc);
      return d.str();
    }
    return "";
  }
  std::string region(i128 t) const {
    if (Z.f.times.empty()) return "no-transitions";
    if (t < Z.f.times.front()) return "before-first";
    if (t >= Z.f.times.back()) {
      if (!Z.px_rules) return "after-last";
      i128 y = orc::civ_from_secs(t + Z.px.std_off).y - year0();
      if (y <= 1) return "seam-year";
      if (y <= 401) return "rule-cycle";
      return "shifted";
    }
    return "recorded";
  }
  void run_c01(const char* prop, bool limits_only) {
    std::unordered_set<int64_t> nt;
    for (int64_t t : inst) {
      if (limits_only && !is_limit_probe(t))
        continue;
      ctx.set_case("zone=%s path=%s op=lookup(t) t=%" PRId64, zid().c_str(), ze.path.c_str(), t);
      auto al = tz.lookup(mk(t));
      ctx.stat(std::string(prop) + ".evaluations");
      std::string d = cmp_abs(t, al);
      if (!d.empty()) ctx.viol(prop, "abs-lookup:" + ze.cls + ":" + region(t), d);
      if (near_break(t) || in_generated_region(t) || near_limits(t) ||
          (!Z.f.times.empty() && t < Z.f.times.front()))
        nt.insert(t);
      ctx.stat(std::string(prop) + ".region." + region(t));
    }
    if (count_distinct) ctx.stat(std::string(prop) + ".distinct_nontrivial", nt.size());
    if (!inst.empty()) {
      int64_t t = inst[inst.size() / 2];
      auto al = tz.lookup(mk(t));
      std::ostringstream s;
      s << "zone=" << zid() << " lookup(" << t << ") -> " << orc::str(from_cs(al.cs)) << " off="
        << al.offset << " dst=" << al.is_dst << " abbr=" << al.abbr << " oracle=" << orc::str(Z.at(t));
      ctx.sample(prop, s.str());
    }
  }

  // -------------------------------------------------------------------- C02
  static const char* kname(int k) {
    return k == 0 ? "UNIQUE" : k == 1 ? "SKIPPED" : k == 2 ? "REPEATED" : "OUTSIDE";
  }
  std::string civ_region(i128 L) const {
    if (Z.f.times.empty()) return "no-transitions";
    i128 t = L - Z.at(L).off;
    return region(t);
  }
  void run_c02(const char* prop, bool limits_only) {
    size_t nontrivial = 0;
    int sampled = 0;
    for (i128 L : civs) {
      bool lim = L > orc::I64MAX - 3 * 86400 || L < orc::I64MIN + 3 * 86400;
      if (limits_only && !lim) continue;
      Civ c = orc::civ_from_secs(L);
      auto ans = Z.civil(L);
      if (ans.kind == orc::Zone::OUTSIDE_DOMAIN) {
        ctx.stat(std::string(prop) + ".dropped_outside_domain");
        continue;
      }
      cctz::civil_second cs = to_cs(c);
      ctx.set_case("zone=%s path=%s op=lookup(cs) cs=%s", zid().c_str(), ze.path.c_str(),
                   orc::str(c).c_str());
      auto cl = tz.lookup(cs);
      ctx.stat(std::string(prop) + ".evaluations");
      int gk = cl.kind == cctz::time_zone::civil_lookup::UNIQUE    ? 0
               : cl.kind == cctz::time_zone::civil_lookup::SKIPPED ? 1
                                                                   : 2;
      int64_t ep = orc::clamp64(ans.pre), et = orc::clamp64(ans.trans), eo = orc::clamp64(ans.post);
      bool bad = gk != (int)ans.kind || un(cl.pre) != ep || un(cl.trans) != et || un(cl.post) != eo;
      ctx.stat(std::string(prop) + ".kind." + kname(ans.kind));
      bool sat = !orc::fits64(ans.pre) || !orc::fits64(ans.trans) || !orc::fits64(ans.post);
      if (sat) ctx.stat(std::string(prop) + ".saturated_cases");
      if (ans.kind != orc::Zone::UNIQUE || sat || near_break(L - Z.at(L).off, 2 * 86400)) ++nontrivial;
      if (bad) {
        std::ostringstream d;
        d << "zone=" << zid() << " cs=" << orc::str(c) << " expected=" << kname(ans.kind) << " pre="
          << ep << " trans=" << et << " post=" << eo << " got=" << kname(gk) << " pre=" << un(cl.pre)
          << " trans=" << un(cl.trans) << " post=" << un(cl.post);
        std::string what = gk != (int)ans.kind ? std::string("kind-") + kname(ans.kind) + "-as-" + kname(gk)
                                               : (sat ? "saturation" : "fields");
        ctx.viol(prop, "civil-lookup:" + ze.cls + ":" + civ_region(L) + ":" + what, d.str());
      } else if (ans.kind != orc::Zone::UNIQUE && sampled < 1) {
        ++sampled;
        std::ostringstream s;
        s << "zone=" << zid() << " lookup(" << orc::str(c) << ") -> " << kname(gk) << " pre="
          << un(cl.pre) << " trans=" << un(cl.trans) << " post=" << un(cl.post) << " (oracle agrees)";
        ctx.sample(prop, s.str());
      }
    }
    ctx.stat(std::string(prop) + ".distinct_nontrivial", nontrivial);
  }

  // -------------------------------------------------------------------- C03
  void run_c03() {
    size_t nontrivial = 0;
    for (int64_t t : inst) {
      if (t < INT64_MIN + 86400 || t > INT64_MAX - 86400) continue;
      ctx.set_case("zone=%s path=%s op=roundtrip t=%" PRId64, zid().c_str(), ze.path.c_str(), t);
      auto al = tz.lookup(mk(t));
      auto cl = tz.lookup(al.cs);
      ctx.stat("C03.evaluations");
      bool ok = false;
      const char* what = "";
      if (cl.kind == cctz::time_zone::civil_lookup::SKIPPED) {
        what = "displayed-civil-time-reported-SKIPPED";
      } else if (cl.kind == cctz::time_zone::civil_lookup::UNIQUE) {
        ok = un(cl.pre) == t;
        what = "UNIQUE-with-other-instant";
      } else {
        ok = un(cl.pre) == t || un(cl.post) == t;
        what = "REPEATED-without-t";
        ctx.stat("C03.repeated_roundtrips");
      }
      if (near_break(t) || in_generated_region(t)) ++nontrivial;
      if (!ok) {
        std::ostringstream d;
        d << "zone=" << zid() << " t=" << t << " cs=" << orc::str(from_cs(al.cs)) << " back: kind="
          << (int)cl.kind << " pre=" << un(cl.pre) << " trans=" << un(cl.trans) << " post=" << un(cl.post);
        ctx.viol("C03", std::string("roundtrip:") + ze.cls + ":" + region(t) + ":" + what, d.str());
      }
    }
    // converse
    for (i128 L : civs) {
      Civ c = orc::civ_from_secs(L);
      cctz::civil_second cs = to_cs(c);
      ctx.set_case("zone=%s path=%s op=converse cs=%s", zid().c_str(), ze.path.c_str(), orc::str(c).c_str());
      auto cl = tz.lookup(cs);
      if (cl.kind == cctz::time_zone::civil_lookup::SKIPPED) continue;
      std::vector<tp_t> us = {cl.pre};
      if (cl.kind == cctz::time_zone::civil_lookup::REPEATED) us.push_back(cl.post);
      for (tp_t u : us) {
        if (u == tp_t::max() || u == tp_t::min()) continue;  // saturated answers are excluded
        ctx.stat("C03.evaluations");
        ctx.stat("C03.converse_checks");
        auto al = tz.lookup(u);
        if (al.cs != cs) {
          std::ostringstream d;
          d << "zone=" << zid() << " cs=" << orc::str(c) << " kind=" << (int)cl.kind << " returned instant "
            << un(u) << " displays " << orc::str(from_cs(al.cs));
          ctx.viol("C03", "converse:" + ze.cls + ":" + civ_region(L), d.str());
        }
      }
      if (cl.kind != cctz::time_zone::civil_lookup::UNIQUE) ++nontrivial;
    }
    ctx.stat("C03.distinct_nontrivial", nontrivial);
    if (!inst.empty()) {
      int64_t t = inst[inst.size() / 3];
      auto al = tz.lookup(mk(t));
      auto cl = tz.lookup(al.cs);
      std::ostringstream s;
      s << "zone=" << zid() << " t=" << t << " -> " << orc::str(from_cs(al.cs)) << " -> kind=" << (int)cl.kind
        << " pre=" << un(cl.pre) << " post=" << un(cl.post);
      ctx.sample("C03", s.str());
    }
  }

  // -------------------------------------------------------------------- C06
  // order: 0 = ascending evaluation, 1 = descending, 2 = shuffled. The property is about pairs, not about the order
  // in which they are asked; a different evaluation order reaches different hidden (hint) states.
  void check_sorted_run(const std::vector<i128>& Ls, const char* what, size_t* nontrivial, int order = 0) {
    std::vector<size_t> ev(Ls.size());
    for (size_t i = 0; i < ev.size(); ++i) ev[i] = i;
    if (order == 1) std::reverse(ev.begin(), ev.end());
    if (order == 2)
      for (size_t i = ev.size(); i > 1; --i) std::swap(ev[i - 1], ev[rng.next() % i]);
    std::vector<int64_t> vals(Ls.size());
    for (size_t i : ev) {
      Civ c = orc::civ_from_secs(Ls[i]);
      ctx.set_case("zone=%s path=%s op=convert(cs) cs=%s order=%d", zid().c_str(), ze.path.c_str(), orc::str(c).c_str(), order);
      vals[i] = un(cctz::convert(to_cs(c), tz));
    }
    bool have = false;
    int64_t prev = 0;
    i128 prevL = 0;
    for (size_t i = 0; i < Ls.size(); ++i) {
      i128 L = Ls[i];
      Civ c = orc::civ_from_secs(L);
      int64_t v = vals[i];
      if (have) {
        ctx.stat("C06.evaluations");
        if (near_break(L - Z.at(L).off, 2 * 86400) || v == INT64_MAX || v == INT64_MIN) ++*nontrivial;
        if (v < prev) {
          std::ostringstream d;
          d << "zone=" << zid() << " cs1=" << orc::str(orc::civ_from_secs(prevL)) << " -> " << prev
            << " cs2=" << orc::str(c) << " -> " << v;
          ctx.viol("C06", std::string("order:") + ze.cls + ":" + what + ":" + civ_region(L), d.str());
        }
      }
      have = true;
      prev = v;
      prevL = L;
    }
  }
  void run_c06() {
    size_t nontrivial = 0;
    check_sorted_run(civs, "probe-set", &nontrivial, 0);
    check_sorted_run(civs, "probe-set-descending", &nontrivial, 1);
    check_sorted_run(civs, "probe-set-shuffled", &nontrivial, 2);
    // dense sweeps around real changes
    size_t nch = near_changes.size();
    size_t want = std::min<size_t>(nch, thorough ? 48 : 8);
    for (size_t k = 0; k < want; ++k) {
      const orc::Change& c = near_changes[rng.next() % nch];
      i128 lo = c.T + std::min(c.before.off, c.after.off), hi = c.T + std::max(c.before.off, c.after.off);
      std::vector<i128> Ls;
      for (i128 L = lo - 1800; L <= hi + 1800; ++L)
        if (L >= civ_min_L && L <= civ_max_L) Ls.push_back(L);
      for (i128 L = lo - 3 * 3600; L <= hi + 3 * 3600; L += 7)
        if (L >= civ_min_L && L <= civ_max_L) Ls.push_back(L);
      std::sort(Ls.begin(), Ls.end());
      Ls.erase(std::unique(Ls.begin(), Ls.end()), Ls.end());
      check_sorted_run(Ls, "dense-sweep", &nontrivial, static_cast<int>(k % 3));
      ctx.stat("C06.dense_sweeps");
    }
    ctx.stat("C06.distinct_nontrivial", nontrivial);
    if (civs.size() > 2) {
      i128 L = civs[civs.size() / 2];
      std::ostringstream s;
      s << "zone=" << zid() << " convert(" << orc::str(orc::civ_from_secs(L)) << ")="
        << un(cctz::convert(to_cs(orc::civ_from_secs(L)), tz)) << " within a sorted run of " << civs.size()
        << " civil probes";
      ctx.sample("C06", s.str());
    }
  }

  // -------------------------------------------------------------------- C10
  void run_c10() {
    run_c01("C10", true);
    run_c02("C10", true);
    // totality of the transition queries at the limits
    cctz::time_zone::civil_transition tr;
    for (int64_t t : inst) {
      if (!near_limits(t) && std::llabs(t) != ((int64_t)1 << 59)) continue;
      ctx.set_case("zone=%s path=%s op=next/prev_transition t=%" PRId64, zid().c_str(), ze.path.c_str(), t);
      tz.next_transition(mk(t), &tr);
      tz.prev_transition(mk(t), &tr);
      ctx.stat("C10.evaluations", 2);
      ctx.stat("C10.transition_queries_at_limits", 2);
    }
    // exactness of the last/first representable civil second
    for (int32_t o : Z.offsets()) (void)o;
    {
      orc::Info im = Z.at(orc::I64MAX), in = Z.at(orc::I64MIN);
      struct E {
        i128 L;
        int64_t want;
        const char* what;
      } es[] = {{orc::I64MAX + im.off, INT64_MAX, "last-representable"},
                {orc::I64MAX + im.off - 1, INT64_MAX - 1, "last-representable-1"},
                {orc::I64MAX + im.off + 1, INT64_MAX, "first-beyond-max"},
                {orc::I64MIN + in.off, INT64_MIN, "first-representable"},
                {orc::I64MIN + in.off + 1, INT64_MIN + 1, "first-representable+1"},
                {orc::I64MIN + in.off - 1, INT64_MIN, "first-beyond-min"}};
      for (auto& e : es) {
        if (e.L < civ_min_L || e.L > civ_max_L) continue;
        Civ c = orc::civ_from_secs(e.L);
        // only when that civil second is displayed by a single instant (no change within 2 days)
        auto ans = Z.civil(e.L);
        if (ans.kind != orc::Zone::UNIQUE) continue;
        ctx.set_case("zone=%s path=%s op=convert(cs) cs=%s", zid().c_str(), ze.path.c_str(), orc::str(c).c_str());
        int64_t v = un(cctz::convert(to_cs(c), tz));
        ctx.stat("C10.evaluations");
        ctx.stat("C10.exactness_checks");
        // a change may sit within a second of the limit: the wanted instant is the oracle's, clamped
        int64_t want = orc::clamp64(ans.pre);
        if (want == e.want) ctx.stat("C10.exactness_checks_at_the_limit_itself");
        if (v != want) {
          std::ostringstream d;
          d << "zone=" << zid() << " " << e.what << " cs=" << orc::str(c) << " expected=" << want << " got=" << v;
          ctx.viol("C10", std::string("limit-exactness:") + ze.cls + ":" + e.what, d.str());
        }
      }
    }
  }

  // -------------------------------------------------------------------- C11
  struct Step {
    int64_t T;
    Civ from, to;
  };
  static int64_t key_of(const Step& s) { return s.T; }
  static int64_t key_of(int64_t t) { return t; }
  static bool same_tr(const cctz::time_zone::civil_transition& tr, const Step& s) {
    return from_cs(tr.from) == s.from && from_cs(tr.to) == s.to;
  }
  void run_c11() {
    const size_t CAP = 6000;
    cctz::time_zone::civil_transition tr;
    std::vector<Step> fw;
    {
      tp_t t = tp_t::min();
      bool first = true;
      while (fw.size() < CAP) {
        ctx.set_case("zone=%s path=%s op=next_transition t=%" PRId64, zid().c_str(), ze.path.c_str(), un(t));
        if (!tz.next_transition(t, &tr)) break;
        auto cl = tz.lookup(tr.to);
        int64_t T = un(cl.trans);
        ctx.stat("C11.evaluations");
        if (!first && T <= un(t)) {
          ctx.viol("C11", "chain-not-advancing:" + ze.cls, "zone=" + zid() + " at t=" + std::to_string(un(t)));
          break;
        }
        if (first && T == INT64_MIN) {  // a change exactly at min() is not strictly after min()
          ctx.viol("C11", "next-reports-min:" + ze.cls, "zone=" + zid());
          break;
        }
        first = false;
        fw.push_back(Step{T, from_cs(tr.from), from_cs(tr.to)});
        t = mk(T);
      }
    }
    std::vector<Step> bw;
    {
      tp_t t = tp_t::max();
      bool first = true;
      while (bw.size() < CAP) {
        ctx.set_case("zone=%s path=%s op=prev_transition t=%" PRId64, zid().c_str(), ze.path.c_str(), un(t));
        if (!tz.prev_transition(t, &tr)) break;
        auto cl = tz.lookup(tr.to);
        int64_t T = un(cl.trans);
        ctx.stat("C11.evaluations");
        if (!first && T >= un(t)) {
          ctx.viol("C11", "chain-not-advancing:" + ze.cls, "zone=" + zid() + " prev at t=" + std::to_string(un(t)));
          break;
        }
        first = false;
        bw.push_back(Step{T, from_cs(tr.from), from_cs(tr.to)});
        t = mk(T);
      }
    }
    ctx.stat("C11.chain_steps", fw.size());
    // the two chains enumerate the same set
    {
      bool same = fw.size() == bw.size();
      for (size_t i = 0; same && i < fw.size(); ++i) {
        const Step& a = fw[i];
        const Step& b = bw[bw.size() - 1 - i];
        same = a.T == b.T && a.from == b.from && a.to == b.to;
      }
      if (!same && fw.size() < CAP && bw.size() < CAP) {
        std::ostringstream d;
        d << "zone=" << zid() << " next-chain has " << fw.size() << " steps, prev-chain " << bw.size();
        size_t n = std::min(fw.size(), bw.size());
        for (size_t i = 0; i < n; ++i) {
          const Step& a = fw[i];
          const Step& b = bw[bw.size() - 1 - i];
          if (!(a.T == b.T && a.from == b.from && a.to == b.to)) {
            d << " first difference at index " << i << ": next T=" << a.T << " prev T=" << b.T;
            break;
          }
        }
        ctx.viol("C11", "chains-differ:" + ze.cls, d.str());
      }
    }
    // the chain is exactly the oracle's list of real changes up to its last element (and
    // contains every change recorded in the file body)
    i128 upto = fw.empty() ? orc::I64MIN : (i128)fw.back().T;
    if (!Z.f.times.empty()) upto = std::max(upto, (i128)Z.f.times.back());
    std::vector<orc::Change> ch;
    // class S-dst0 (type 0 is a daylight type in use): which type precedes the first transition is a convention of
    // old readers, not something the oracle takes from the bytes, so there only the library's own consistency is
    // checked (chains, point queries, no reported no-op), not the oracle's list
    const bool self_only = ze.cls == "S-dst0";
    if (self_only) ctx.stat("C11.zones_checked_for_self_consistency_only");
    if (!self_only) Z.changes(orc::I64MIN + 1, upto, &ch);
    if (self_only) {
      // every recorded entry across which lookup() changes is in the chain (the entry at -2^59 is never reported)
      for (int64_t t : Z.f.times) {
        if (t <= -((int64_t)1 << 59)) continue;
        auto a = tz.lookup(mk(t - 1)), b = tz.lookup(mk(t));
        ctx.stat("C11.evaluations");
        bool changes = !(a.offset == b.offset && a.is_dst == b.is_dst && std::string(a.abbr) == std::string(b.abbr));
        bool reported = std::binary_search(fw.begin(), fw.end(), t, [](const auto& x, const auto& y) { return key_of(x) < key_of(y); });
        if (changes != reported) {
          ctx.viol("C11", std::string(changes ? "missing-transition:" : "noop-reported:") + ze.cls + ":self-consistency",
                   "zone=" + zid() + " recorded entry at T=" + std::to_string(t) + " lookup " + (changes ? "changes" : "does not change") +
                       " across it but it is " + (reported ? "reported" : "not reported"));
        }
      }
    }
    if (!self_only) {
      size_t n = std::max(ch.size(), fw.size());
      for (size_t i = 0; i < n; ++i) {
        if (i >= ch.size()) {
          std::ostringstream d;
          d << "zone=" << zid() << " reported step #" << i << " T=" << fw[i].T << " from=" << orc::str(fw[i].from)
            << " to=" << orc::str(fw[i].to) << " is not a real change";
          ctx.viol("C11", "spurious-transition:" + ze.cls + ":" + region(fw[i].T), d.str());
          break;
        }
        Civ ef = orc::civ_from_secs(ch[i].T + ch[i].before.off), et = orc::civ_from_secs(ch[i].T + ch[i].after.off);
        if (i >= fw.size()) {
          std::ostringstream d;
          d << "zone=" << zid() << " real change #" << i << " at T=" << S(ch[i].T) << " " << orc::str(ch[i].before)
            << "->" << orc::str(ch[i].after) << " not reported (chain has " << fw.size() << " steps)";
          ctx.viol("C11", "missing-transition:" + ze.cls + ":" + region(ch[i].T), d.str());
          break;
        }
        ctx.stat("C11.evaluations");
        if ((i128)fw[i].T != ch[i].T || fw[i].from != ef || fw[i].to != et) {
          std::ostringstream d;
          d << "zone=" << zid() << " step #" << i << " expected T=" << S(ch[i].T) << " from=" << orc::str(ef)
            << " to=" << orc::str(et) << " (" << orc::str(ch[i].before) << "->" << orc::str(ch[i].after)
            << ") got T=" << fw[i].T << " from=" << orc::str(fw[i].from) << " to=" << orc::str(fw[i].to);
          ctx.viol("C11", "wrong-transition:" + ze.cls + ":" + region(ch[i].T), d.str());
          break;
        }
      }
    }
    // lookup() differs across each reported transition and is constant between them
    for (size_t i = 0; i < fw.size(); ++i) {
      if (fw[i].T == INT64_MIN) continue;
      auto a = tz.lookup(mk(fw[i].T - 1)), b = tz.lookup(mk(fw[i].T));
      ctx.stat("C11.evaluations");
      if (a.offset == b.offset && a.is_dst == b.is_dst && std::string(a.abbr) == std::string(b.abbr)) {
        ctx.viol("C11", "noop-reported:" + ze.cls, "zone=" + zid() + " T=" + std::to_string(fw[i].T));
      }
    }
    // point queries
    std::vector<int64_t> qs;
    for (auto& s : fw) {
      for (int d : {-1, 0, 1}) {
        i128 q = (i128)s.T + d;
        if (orc::fits64(q)) qs.push_back((int64_t)q);
      }
    }
    for (size_t i = 0; i + 1 < fw.size(); ++i) qs.push_back(fw[i].T + (fw[i + 1].T - fw[i].T) / 2);
    for (auto t : Z.f.times)
      for (int d : {-1, 0, 1}) qs.push_back(t + d);
    for (int64_t q : {INT64_MIN, INT64_MIN + 1, INT64_MAX, INT64_MAX - 1, -((int64_t)1 << 59), -((int64_t)1 << 59) + 1,
                      -((int64_t)1 << 59) - 1, (int64_t)1 << 59, (int64_t)0, (int64_t)2147483647, (int64_t)2147483646,
                      (int64_t)2147483648LL})
      qs.push_back(q);
    for (int k = 0; k < 50; ++k) qs.push_back((int64_t)rng.next());
    for (int k = 0; k < 50; ++k) qs.push_back(rng.range(-5000000000LL, 20000000000LL));
    std::unordered_set<int64_t> seen;
    size_t nontrivial = 0;
    bool complete = fw.size() < CAP;
    for (int64_t q : qs) {
      if (!seen.insert(q).second) continue;
      // expected next: first step with T > q ; prev: last with T < q
      auto it = std::upper_bound(fw.begin(), fw.end(), q, [](int64_t v, const Step& s) { return v < s.T; });
      ctx.set_case("zone=%s path=%s op=next_transition t=%" PRId64, zid().c_str(), ze.path.c_str(), q);
      bool g = tz.next_transition(mk(q), &tr);
      ctx.stat("C11.evaluations");
      ctx.stat("C11.point_queries");
      bool exp_have = it != fw.end();
      if (exp_have || complete) {
        if (g != exp_have || (g && !same_tr(tr, *it))) {
          std::ostringstream d;
          d << "zone=" << zid() << " next_transition(" << q << ") expected "
            << (exp_have ? "T=" + std::to_string(it->T) : std::string("false")) << " got "
            << (g ? "to=" + orc::str(from_cs(tr.to)) : std::string("false"));
          ctx.viol("C11", "next-point-query:" + ze.cls, d.str());
        }
      }
      auto jt = std::lower_bound(fw.begin(), fw.end(), q, [](const Step& s, int64_t v) { return s.T < v; });
      ctx.set_case("zone=%s path=%s op=prev_transition t=%" PRId64, zid().c_str(), ze.path.c_str(), q);
      bool g2 = tz.prev_transition(mk(q), &tr);
      ctx.stat("C11.evaluations");
      ctx.stat("C11.point_queries");
      bool exp2 = jt != fw.begin();
      if (complete || exp2) {
        // when the chain was capped, "prev" of far-future instants may legitimately be a later step
        if (complete || q <= fw.back().T) {
          if (g2 != exp2 || (g2 && !same_tr(tr, *(jt - 1)))) {
            std::ostringstream d;
            d << "zone=" << zid() << " prev_transition(" << q << ") expected "
              << (exp2 ? "T=" + std::to_string((jt - 1)->T) : std::string("false")) << " got "
              << (g2 ? "to=" + orc::str(from_cs(tr.to)) : std::string("false"));
            ctx.viol("C11", "prev-point-query:" + ze.cls, d.str());
          }
        }
      }
      if (it != fw.end() && (i128)it->T - q <= 1) ++nontrivial;
      else if (jt != fw.begin() && (i128)q - (jt - 1)->T <= 1) ++nontrivial;
    }
    // the same queries through the templated overloads, with time points finer and coarser than a second: "strictly
    // after t" is T > floor(t) for whole-second T, "strictly before t" is T < ceil(t)
    if (complete) {
      size_t nq = 0;
      for (int64_t q : qs) {
        auto it0 = std::lower_bound(fw.begin(), fw.end(), q, [](const Step& s, int64_t v) { return s.T < v; });
        bool near = (it0 != fw.end() && (i128)it0->T - q <= 1) || (it0 != fw.begin() && (i128)q - (it0 - 1)->T <= 1);
        if (!near && (nq++ % 8) != 0) continue;
        auto expect = [&](i128 num, i128 den, const char* what, bool g, bool gp, const cctz::time_zone::civil_transition& tn,
                          const cctz::time_zone::civil_transition& tpv) {
          // t = num/den seconds
          i128 fl = orc::fdiv(num, den);
          i128 ce = (fl * den == num) ? fl : fl + 1;
          auto itn = std::upper_bound(fw.begin(), fw.end(), fl, [](i128 v, const Step& s) { return v < (i128)s.T; });
          auto itp = std::lower_bound(fw.begin(), fw.end(), ce, [](const Step& s, i128 v) { return (i128)s.T < v; });
          ctx.stat("C11.evaluations", 2);
          ctx.stat("C11.subsecond_queries", 2);
          if (fl * den != num) ctx.stat("C11.subsecond_queries_with_fraction", 2);
          bool en = itn != fw.end(), ep = itp != fw.begin();
          if (g != en || (g && !same_tr(tn, *itn))) {
            std::ostringstream d;
            d << "zone=" << zid() << " next_transition(" << S(num) << "/" << S(den) << " s as " << what << ") expected "
              << (en ? "T=" + std::to_string(itn->T) : std::string("false")) << " got " << (g ? "to=" + orc::str(from_cs(tn.to)) : std::string("false"));
            ctx.viol("C11", std::string("next-point-query:") + what + ":" + ze.cls, d.str());
          }
          if (gp != ep || (gp && !same_tr(tpv, *(itp - 1)))) {
            std::ostringstream d;
            d << "zone=" << zid() << " prev_transition(" << S(num) << "/" << S(den) << " s as " << what << ") expected "
              << (ep ? "T=" + std::to_string((itp - 1)->T) : std::string("false")) << " got "
              << (gp ? "to=" + orc::str(from_cs(tpv.to)) : std::string("false"));
            ctx.viol("C11", std::string("prev-point-query:") + what + ((fl * den != num) ? "-with-fraction:" : ":") + ze.cls, d.str());
          }
        };
        cctz::time_zone::civil_transition tn, tpv;
        if (q > -9000000000000000LL && q < 9000000000000000LL) {
          for (int f : {-999, -500, -1, 0, 1, 500, 999}) {
            int64_t c = q * 1000 + f;
            cctz::time_point<std::chrono::milliseconds> t{std::chrono::milliseconds(c)};
            ctx.set_case("zone=%s path=%s op=next/prev_transition<ms> count=%" PRId64, zid().c_str(), ze.path.c_str(), c);
            bool g = tz.next_transition(t, &tn), gp = tz.prev_transition(t, &tpv);
            expect(c, 1000, "milliseconds", g, gp, tn, tpv);
          }
        }
        if (q > -9000000000LL && q < 9000000000LL) {
          for (int f : {-1, 0, 1, 999999999}) {
            int64_t c = q * 1000000000 + f;
            std::chrono::time_point<std::chrono::system_clock, std::chrono::nanoseconds> t{std::chrono::nanoseconds(c)};
            ctx.set_case("zone=%s path=%s op=next/prev_transition<ns> count=%" PRId64, zid().c_str(), ze.path.c_str(), c);
            bool g = tz.next_transition(t, &tn), gp = tz.prev_transition(t, &tpv);
            expect(c, 1000000000, "nanoseconds", g, gp, tn, tpv);
          }
        }
        if (q > -((int64_t)1 << 50) && q < ((int64_t)1 << 50)) {
          // a floating-point representation: quarter seconds are exact in a double at this magnitude
          for (int f4 : {-2, -1, 0, 1, 2, 3}) {
            double c = static_cast<double>(q) + f4 * 0.25;
            cctz::time_point<std::chrono::duration<double>> t{std::chrono::duration<double>(c)};
            ctx.set_case("zone=%s path=%s op=next/prev_transition<double s> t=%" PRId64 "%+d/4", zid().c_str(), ze.path.c_str(), q, f4);
            bool g = tz.next_transition(t, &tn), gp = tz.prev_transition(t, &tpv);
            expect((i128)q * 4 + f4, 4, "double-seconds", g, gp, tn, tpv);
          }
        }
        {
          int64_t m = (int64_t)orc::fdiv(q, 60);
          for (int d : {0, 1}) {
            if (q % 60 == 0 && d == 1) continue;
            if (!orc::fits64((i128)(m + d) * 60)) continue;  // outside the documented range of the overload
            cctz::time_point<std::chrono::duration<int64_t, std::ratio<60>>> t{std::chrono::duration<int64_t, std::ratio<60>>(m + d)};
            ctx.set_case("zone=%s path=%s op=next/prev_transition<min> count=%" PRId64, zid().c_str(), ze.path.c_str(), m + d);
            bool g = tz.next_transition(t, &tn), gp = tz.prev_transition(t, &tpv);
            expect(-((i128)(m + d) * -60), 1, "minutes", g, gp, tn, tpv);
          }
        }
      }
    }
    if (tz.next_transition(tp_t::max(), &tr))
      ctx.viol("C11", "next-at-max-true:" + ze.cls, "zone=" + zid());
    if (tz.prev_transition(tp_t::min(), &tr))
      ctx.viol("C11", "prev-at-min-true:" + ze.cls, "zone=" + zid());
    ctx.stat("C11.distinct_nontrivial", nontrivial + fw.size());
    if (fw.empty()) ctx.stat("C11.zones_without_transitions");
    bool noop = false;
    for (size_t i = 0; i < Z.f.times.size(); ++i) {
      orc::Info b = Z.at((i128)Z.f.times[i] - 1), a = Z.at(Z.f.times[i]);
      if (a.same(b)) noop = true;
    }
    if (noop) ctx.stat("C11.zones_with_noop_entries");
    if (!Z.f.times.empty() && Z.f.times.front() <= -((int64_t)1 << 59)) ctx.stat("C11.zones_with_bigbang_entry");
    if (!fw.empty()) {
      const Step& s = fw[fw.size() / 2];
      std::ostringstream o;
      o << "zone=" << zid() << " chain of " << fw.size() << " steps, e.g. T=" << s.T << " from=" << orc::str(s.from)
        << " to=" << orc::str(s.to) << "; prev-chain identical in reverse; " << seen.size() << " point queries";
      ctx.sample("C11", o.str());
    }
  }

  // -------------------------------------------------------------------- driver
  void run() {
    std::string bytes;
    if (!zsrc::read_file(ze.path, &bytes)) {
      ctx.note("cannot read " + ze.path);
      ctx.stat("harness_errors");
      return;
    }
    if (!Z.init(bytes)) {
      ctx.note("oracle rejects corpus file " + ze.path + ": " + Z.err);
      ctx.stat("harness_errors");
      return;
    }
    std::string name = "V/" + ze.cls + "/" + ze.name;
    bool ok;
    size_t fx = ze.flags.find("fixed=");
    if (fx != std::string::npos) {
      long off = atol(ze.flags.c_str() + fx + 6);
      ctx.set_case("zone=%s op=fixed_time_zone(%ld)", zid().c_str(), off);
      tz = cctz::fixed_time_zone(cctz::seconds(off));
      ok = true;
    } else {
      zsrc::put(name, bytes);
      ctx.set_case("zone=%s path=%s op=load", zid().c_str(), ze.path.c_str());
      ok = cctz::load_time_zone(name, &tz);
    }
    ctx.stat("zones");
    ctx.stat("zones.class." + ze.cls);
    if (Z.f.version_byte == 0) ctx.stat("zones.version1");
    if (Z.px_rules) ctx.stat("zones.with_rule_footer");
    if (Z.px_allyear) ctx.stat("zones.with_allyear_dst_footer");
    if (!ok) {
      if (P.c01) ctx.viol("C01", "load-failed:" + ze.cls, "zone=" + zid() + " path=" + ze.path + " footer=" + Z.f.footer);
      ctx.stat("zones_load_failed");
      return;
    }
    if (ze.cls == "S-dst0" && !Z.f.times.empty()) {
      // Which type precedes the first transition is a reader's convention for these files (class S-dst0): the oracle is
      // told once, from lookup(min()), and then demands that every answer before the first transition - instants and
      // civil times, whatever the table position - is consistent with that one type.
      auto al = tz.lookup(tp_t::min());
      size_t found = Z.f.types.size();
      for (size_t i = 0; i < Z.f.types.size(); ++i) {
        orc::Info ti = Z.type_info(i);
        if (ti.off == al.offset && ti.dst == al.is_dst && ti.abbr == std::string(al.abbr ? al.abbr : "")) {
          found = i;
          break;
        }
      }
      if (found == Z.f.types.size()) {
        ctx.viol(P.c01 ? "C01" : "C02", "before-first-type-not-in-file:" + ze.cls, "zone=" + zid() + " lookup(min()) reports offset " + std::to_string(al.offset));
        return;
      }
      Z.before_first = found;
      ctx.stat("zones.before_first_type_calibrated");
    }
    build_probes();
    ctx.stat("zones.far_rule_changes_probed", (long)far_changes);
    if (P.c01) {
      run_c01("C01", false);
      if (ze.flags.find("abs") != std::string::npos) {
        // the default file source: same answers through an absolute path
        cctz::time_zone tz2;
        ctx.set_case("zone=%s path=%s op=load-abs", zid().c_str(), ze.path.c_str());
        if (!cctz::load_time_zone(ze.path, &tz2)) {
          ctx.viol("C01", "load-failed-abs:" + ze.cls, "path=" + ze.path);
        } else {
          cctz::time_zone keep = tz;
          tz = tz2;
          count_distinct = false;
          run_c01("C01", false);
          count_distinct = true;
          tz = keep;
          ctx.stat("C01.zones_also_by_absolute_path");
        }
      }
    }
    if (P.c02) run_c02("C02", false);
    if (P.c03) run_c03();
    if (P.c06) run_c06();
    if (P.c10) run_c10();
    if (P.c11) run_c11();
  }
};

int main(int argc, char** argv) {
  sup::Args a(argc, argv);
  std::string st = orc::selftest_calendar();
  if (!st.empty()) {
    fprintf(stderr, "oracle self-test failed: %s\n", st.c_str());
    return 2;
  }
  std::vector<ZoneEnt> zones;
  {
    std::ifstream f(a.get("zones"));
    std::string line;
    while (std::getline(f, line)) {
      if (line.empty()) continue;
      std::vector<std::string> p;
      size_t s = 0;
      while (true) {
        size_t e = line.find('\t', s);
        p.push_back(line.substr(s, e == std::string::npos ? e : e - s));
        if (e == std::string::npos) break;
        s = e + 1;
      }
      if (p.size() < 3) continue;
      zones.push_back(ZoneEnt{p[0], p[1], p[2], p.size() > 3 ? p[3] : ""});
    }
  }
  if (zones.empty()) {
    fprintf(stderr, "no zones\n");
    return 2;
  }
  Props P;
  std::string props = a.get("props", "C01");
  P.c01 = props.find("C01") != std::string::npos;
  P.c02 = props.find("C02") != std::string::npos;
  P.c03 = props.find("C03") != std::string::npos;
  P.c06 = props.find("C06") != std::string::npos;
  P.c10 = props.find("C10") != std::string::npos;
  P.c11 = props.find("C11") != std::string::npos;
  uint64_t seed = static_cast<uint64_t>(a.getl("seed", 0));
  bool thorough = a.get("tier", "quick") == "thorough";
  sup::Options opt = sup::options_from(a);
  return sup::supervise(static_cast<long>(zones.size()), opt, [&](long c, sup::Ctx& ctx) {
    Mon m(ctx, zones[c], seed, thorough, P);
    m.run();
  });
}
