// Seeded generator of POSIX-TZ sentences, boundary values, single-edit mutants and random bytes
// (shared by the C16 monitor and the C12 footer mutator).
#ifndef VERIF_POSIXGEN_H_
#define VERIF_POSIXGEN_H_

#include <cstdio>
#include <string>

#include "sup.h"

struct Gen {
  sup::Rng& r;
  explicit Gen(sup::Rng& rr) : r(rr) {}
  std::string abbr() {
    switch (r.range(0, 7)) {
      case 0: return "<" + quoted() + ">";
      case 1: return "<>";
      case 2: return std::string(static_cast<size_t>(r.range(0, 2)), 'A');  // too short
      case 3: {
        std::string s;
        int n = (int)r.range(3, 9);
        for (int i = 0; i < n; ++i) s += static_cast<char>(r.chance(0.9) ? 'A' + r.range(0, 25) : "a_/.*~ \x80\xff"[r.range(0, 8)]);
        return s;
      }
      default: {
        std::string s;
        int n = (int)r.range(3, 5);
        for (int i = 0; i < n; ++i) s += static_cast<char>('A' + r.range(0, 25));
        return s;
      }
    }
  }
  std::string quoted() {
    std::string s;
    int n = (int)r.range(0, 6);
    for (int i = 0; i < n; ++i) s += "+-0123456789ABCxyz,:/<"[r.range(0, 21)];
    return s;
  }
  std::string num(long lo, long hi) {
    // at, just inside and just outside the bounds, or anywhere
    long v;
    switch (r.range(0, 6)) {
      case 0: v = lo; break;
      case 1: v = hi; break;
      case 2: v = hi + 1; break;
      case 3: v = lo - 1; break;
      default: v = r.range(lo, hi); break;
    }
    if (v < 0) return r.chance(0.5) ? "" : "0";  // a negative literal cannot be written; drop the field
    char b[64];
    if (r.chance(0.04)) {
      // a legal value spelled with many characters: zero padding up to and beyond the width of any integer type
      static const int kW[] = {4, 9, 10, 11, 12, 18, 19, 20, 21, 25, 40};
      snprintf(b, sizeof b, "%0*ld", kW[r.range(0, 10)], v);
      return b;
    }
    if (r.chance(0.04)) {
      // values that are special to fixed-width arithmetic: a legal value plus a multiple of 2^31, 2^32 or 2^64, the
      // limits of int and long and their neighbours, and those followed by one more digit
      static const char* const kBig[] = {"2147483647", "2147483648", "2147483649", "4294967295", "4294967296",
                                         "9223372036854775807", "9223372036854775808", "18446744073709551615",
                                         "18446744073709551616", "214748364", "429496729", "99999999999999999999"};
      switch (r.range(0, 3)) {
        case 0: return kBig[r.range(0, 11)];
        case 1: return std::string(kBig[r.range(0, 11)]) + static_cast<char>('0' + r.range(0, 9));
        case 2: {
          unsigned __int128 w = static_cast<unsigned __int128>(v) +
                                (static_cast<unsigned __int128>(r.range(1, 3)) << (r.chance(0.5) ? 32 : r.chance(0.5) ? 31 : 64));
          std::string d;
          while (w) {
            d.insert(d.begin(), static_cast<char>('0' + static_cast<int>(w % 10)));
            w /= 10;
          }
          return d;
        }
        default: {
          snprintf(b, sizeof b, "%ld%ld", 214748364L + r.range(0, 1), r.range(0, 99));
          return b;
        }
      }
    }
    if (r.chance(0.1))
      snprintf(b, sizeof b, "%03ld", v);
    else
      snprintf(b, sizeof b, "%ld", v);
    return b;
  }
  std::string offset(long hmax) {
    std::string s;
    switch (r.range(0, 5)) {
      case 0: s = "-"; break;
      case 1: s = "+"; break;
      default: break;
    }
    s += num(0, hmax);
    if (r.chance(0.45)) {
      s += ":" + num(0, 59);
      if (r.chance(0.5)) s += ":" + num(0, 59);
    }
    return s;
  }
  std::string date() {
    switch (r.range(0, 3)) {
      case 0: return "J" + num(1, 365);
      case 1: return num(0, 365);
      default: return "M" + num(1, 12) + "." + num(1, 5) + "." + num(0, 6);
    }
  }
  std::string rule() {
    std::string s = "," + date();
    if (r.chance(0.55)) s += "/" + offset(167);
    return s;
  }
  std::string sentence() {
    std::string s = abbr() + offset(24);
    if (r.chance(0.2)) return s;
    s += abbr();
    if (r.chance(0.4)) s += offset(24);
    s += rule();
    s += rule();
    return s;
  }
  std::string mutate(std::string s) {
    if (s.empty()) return s;
    switch (r.range(0, 9)) {
      case 0: {  // drop the last rule
        size_t p = s.rfind(',');
        if (p != std::string::npos) s.erase(p);
        break;
      }
      case 1: {  // drop both rules
        size_t p = s.find(',');
        if (p != std::string::npos) s.erase(p);
        break;
      }
      case 2: s += rule(); break;                                    // extra rule
      case 3: s += " \t;x0,/:"[r.range(0, 7)]; break;                  // trailing byte
      case 4: s.erase(static_cast<size_t>(r.range(0, (int64_t)s.size() - 1)), 1); break;
      case 5: s.insert(static_cast<size_t>(r.range(0, (int64_t)s.size())), 1, "+-,/.:<>JM0 9"[r.range(0, 12)]); break;
      case 6: s[static_cast<size_t>(r.range(0, (int64_t)s.size() - 1))] = "+-,/.:<>JM0 9a"[r.range(0, 13)]; break;
      case 7: {  // doubled sign
        size_t p = s.find_first_of("+-");
        if (p != std::string::npos) s.insert(p, 1, s[p]);
        break;
      }
      case 8: {  // drop a '.field'
        size_t p = s.rfind('.');
        if (p != std::string::npos) s.erase(p, 2);
        break;
      }
      default: {  // unterminated quote
        size_t p = s.find('>');
        if (p != std::string::npos) s.erase(p, 1);
        break;
      }
    }
    return s;
  }
  std::string random_bytes() {
    std::string s;
    int n = (int)r.range(0, 24);
    for (int i = 0; i < n; ++i) {
      int c = r.chance(0.8) ? "ABCDEFxyz<>+-,/.:JM0123456789 "[r.range(0, 29)] : static_cast<int>(r.range(1, 255));
      s += static_cast<char>(c);
    }
    return s;
  }
};


#endif  // VERIF_POSIXGEN_H_
