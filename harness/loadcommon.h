// Shared by the C12 monitor (loadmon.cc) and the libFuzzer target (fuzz_load.cc): outcome digest
// of a loaded zone and the input-class predicates used for known-findings keys.
#ifndef VERIF_LOADCOMMON_H_
#define VERIF_LOADCOMMON_H_

#include <cinttypes>
#include <string>
#include <vector>

#include "cctz/time_zone.h"
#include "oracle.h"
#include "sup.h"

using orc::i128;
typedef cctz::time_point<cctz::seconds> tp_t;
static inline tp_t mk(int64_t t) { return tp_t(cctz::seconds(t)); }
static inline int64_t un(tp_t tp) { return tp.time_since_epoch().count(); }

static const int64_t kFixed[] = {0, 1, -1, 86400, -86400, 951782400LL, 1700000000LL, 2147483647LL, 2147483648LL, -2147483648LL, -2147483649LL,
                                 4102444800LL, 32503680000LL, 253402300800LL, -62135596800LL, -2208988800LL, 1LL << 40, -(1LL << 40),
                                 1LL << 55, -(1LL << 55), (1LL << 59) - 1, 1LL << 59, (1LL << 59) + 1, -(1LL << 59) - 1, -(1LL << 59), -(1LL << 59) + 1,
                                 1LL << 62, -(1LL << 62), INT64_MAX, INT64_MAX - 1, INT64_MAX - 86400, INT64_MAX - 12622780800LL, INT64_MIN,
                                 INT64_MIN + 1, INT64_MIN + 86400, 1234567890LL, 978307200LL, 1000000000000LL, -1000000000000LL, 15768000000LL};

struct Digest {
  uint64_t h = 1469598103934665603ULL;
  std::string text;  // short human-readable prefix for diagnostics
  void add(const std::string& s) {
    h = sup::fnvs(s, h);
    h = sup::mix(h, s.size());
    if (text.size() < 600) text += s + ";";
  }
  void addi(int64_t v) { add(std::to_string(v)); }
};

static std::string cs_str(const cctz::civil_second& c) {
  char b[96];
  snprintf(b, sizeof b, "%" PRId64 "-%02d-%02dT%02d:%02d:%02d", (int64_t)c.year(), c.month(), c.day(), c.hour(), c.minute(), c.second());
  return b;
}

// `reverse`: ask the per-instant queries in the opposite order (the digest is still accumulated in canonical order):
// the outcome must be a function of the bytes alone, not of the order in which the zone is asked.
static void digest_zone(const cctz::time_zone& tz, bool ok, const std::vector<int64_t>& extra, Digest* d, bool reverse = false) {
  d->add(ok ? "ok" : "fail");
  d->add(tz == cctz::utc_time_zone() ? "utc" : "not-utc");
  d->add(tz.description());
  std::vector<int64_t> inst(kFixed, kFixed + sizeof kFixed / sizeof kFixed[0]);
  inst.insert(inst.end(), extra.begin(), extra.end());
  std::vector<std::string> ans(inst.size());
  for (size_t k = 0; k < inst.size(); ++k) {
    size_t i = reverse ? inst.size() - 1 - k : k;
    int64_t t = inst[i];
    auto al = tz.lookup(mk(t));
    auto cl = tz.lookup(al.cs);
    // a second civil query one hour earlier: reached with a different remembered index depending on the order
    auto cl2 = tz.lookup(al.cs - 3600);
    ans[i] = cs_str(al.cs) + "," + std::to_string(al.offset) + "," + std::to_string(al.is_dst) + "," + (al.abbr ? al.abbr : "(null)") + "," +
             std::to_string(cl.kind) + "," + std::to_string(un(cl.pre)) + "," + std::to_string(un(cl.trans)) + "," + std::to_string(un(cl.post)) + "," +
             std::to_string(cl2.kind) + "," + std::to_string(un(cl2.pre)) + "," + std::to_string(un(cl2.post));
  }
  for (auto& a : ans) d->add(a);
  for (auto cs : {cctz::civil_second::max(), cctz::civil_second::min(), cctz::civil_second(2024, 3, 10, 2, 30, 0),
                  cctz::civil_second(1, 1, 1, 0, 0, 0), cctz::civil_second(-9999, 6, 15, 12, 0, 0), cctz::civil_second(292277026596LL, 12, 4, 15, 30, 7)}) {
    auto cl = tz.lookup(cs);
    d->addi(cl.kind);
    d->addi(un(cl.pre));
    d->addi(un(cl.trans));
    d->addi(un(cl.post));
  }
  cctz::time_zone::civil_transition tr;
  {
    tp_t t = tp_t::min();
    int n = 0;
    while (n < 2000 && tz.next_transition(t, &tr)) {
      d->add(cs_str(tr.from) + ">" + cs_str(tr.to));
      tp_t nt = tz.lookup(tr.to).trans;
      if (nt <= t) {
        d->add("stuck");
        break;
      }
      t = nt;
      ++n;
    }
    d->addi(n);
  }
  {
    tp_t t = tp_t::max();
    int n = 0;
    while (n < 2000 && tz.prev_transition(t, &tr)) {
      d->add(cs_str(tr.from) + "<" + cs_str(tr.to));
      tp_t nt = tz.lookup(tr.to).trans;
      if (nt >= t) {
        d->add("stuck");
        break;
      }
      t = nt;
      ++n;
    }
    d->addi(n);
  }
  d->add(cctz::format("%Y-%m-%dT%H:%M:%S %z %Z %a %j", mk(1700000000), tz));
  d->add(cctz::format("%Y %E*z %s", tp_t::max(), tz));
  d->add(cctz::format("%E4Y %Ez", tp_t::min(), tz));
}

// predicate classes used for known-findings keys (computed from the bytes alone)
static std::string input_class(const std::string& bytes) {
  orc::TZif z;
  if (!orc::parse_tzif(bytes, &z).empty()) return "H-unparsed";
  bool extreme = false;
  for (auto t : z.times)
    if (t > ((int64_t)1 << 59) || t < -((int64_t)1 << 59)) extreme = true;
  if (extreme) return "H-extreme-times";
  orc::Posix px;
  // the library reads the footer as a C string: classify by the part before the first NUL
  std::string footer = z.footer.substr(0, z.footer.find('\0'));
  bool rules = z.has_footer && !footer.empty() && orc::parse_posix(footer, &px) && px.has_dst && !px.dst_abbr.empty();
  // -12703219200 = 1567-06-15: rule-extended table would end before 1970
  if (rules && !z.times.empty() && z.times.back() < -12703219200LL) return "H-ancient-seam";
  if (rules && z.times.empty()) return "H-ancient-seam";  // sentinel at -2^59 becomes the seam
  if (rules && !z.times.empty() && z.times.back() > 4000000000000000LL) return "H-far-future-seam";
  return "H-other";
}


#endif  // VERIF_LOADCOMMON_H_
