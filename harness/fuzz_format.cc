// libFuzzer target (C08): any byte string as format; input = format \0 [8 bytes t][8 bytes f][1 byte zone]
#include <cstring>
#include "cctz/time_zone.h"
static cctz::time_zone Z(int i) {
  static cctz::time_zone z[6];
  static bool init = false;
  if (!init) {
    init = true;
    z[0] = cctz::utc_time_zone();
    cctz::load_time_zone("/repo/testdata/zoneinfo/America/New_York", &z[1]);
    cctz::load_time_zone("/repo/testdata/zoneinfo/Australia/Lord_Howe", &z[2]);
    z[3] = cctz::fixed_time_zone(cctz::seconds(-86399));
    z[4] = cctz::fixed_time_zone(cctz::seconds(86400));
    cctz::load_time_zone("/repo/testdata/zoneinfo/Africa/Monrovia", &z[5]);
  }
  return z[i % 6];
}
extern "C" int LLVMFuzzerTestOneInput(const uint8_t* data, size_t size) {
  const uint8_t* nul = static_cast<const uint8_t*>(memchr(data, 0, size));
  std::string fmt(reinterpret_cast<const char*>(data), nul ? static_cast<size_t>(nul - data) : size);
  int64_t t = 0, f = 0;
  int zi = 0;
  if (nul) {
    size_t rest = size - static_cast<size_t>(nul - data) - 1;
    const uint8_t* p = nul + 1;
    if (rest >= 8) memcpy(&t, p, 8);
    if (rest >= 16) memcpy(&f, p + 8, 8);
    if (rest >= 17) zi = p[16];
  }
  if (f < 0) f = -(f + 1);
  f %= 1000000000000000LL;
  std::string out = cctz::detail::format(fmt, cctz::time_point<cctz::seconds>(cctz::seconds(t)), cctz::detail::femtoseconds(f), Z(zi));
  if (fmt.find('%') == std::string::npos && out != fmt) __builtin_trap();
  return 0;
}
