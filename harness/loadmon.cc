// C12: loading arbitrary bytes as zone data. One case = one hostile input.
// Observed: sanitizer reports / asserts / aborts (supervisor), hangs (watchdog), outcome digest
// equality between two loads in one process, and DIGEST lines that the driver compares between
// builds that pre-fill automatic variables differently.
//   loadmon --bases LIST --n N --seed S --out DIR [--digest-only]
#define VERIF_DEFINE_FACTORY
#include <cinttypes>
#include <fstream>
#include <sstream>

#include "cctz/time_zone.h"
#include "loadcommon.h"
#include "oracle.h"
#include "sup.h"
#include "tzifgen.h"
#include "zsrc.h"


struct Base {
  std::string cls, name, path, bytes;
};

int main(int argc, char** argv) {
  sup::Args a(argc, argv);
  uint64_t seed = static_cast<uint64_t>(a.getl("seed", 0));
  bool digest_only = a.has("digest-only");
  sup::Options opt = sup::options_from(a);
  if (!a.has("case-timeout")) opt.case_timeout_s = 20;
  std::vector<Base> bases;
  {
    std::ifstream f(a.get("bases"));
    std::string line;
    while (std::getline(f, line)) {
      std::istringstream ss(line);
      Base b;
      std::getline(ss, b.cls, '\t');
      std::getline(ss, b.name, '\t');
      std::getline(ss, b.path, '\t');
      if (b.path.empty() || !zsrc::read_file(b.path, &b.bytes)) continue;
      bases.push_back(b);
    }
  }
  if (bases.empty()) {
    fprintf(stderr, "no base files\n");
    return 2;
  }
  // replay of one literal input
  std::string literal;
  if (a.has("input")) {
    if (!zsrc::read_file(a.get("input"), &literal)) return 2;
  }
  long n = a.getl("n", 40000);
  if (a.has("input")) n = 1;
  std::string savedir = a.get("save-inputs", "");
  return sup::supervise(n, opt, [&](long c, sup::Ctx& ctx) {
    sup::Rng rng(seed, static_cast<uint64_t>(c) + 7);
    const Base& base = bases[static_cast<size_t>(c) % bases.size()];
    std::string bytes = base.bytes, label;
    if (!literal.empty()) {
      bytes = literal;
      label = "literal";
    } else if (c < static_cast<long>(bases.size())) {
      label = "unmodified";  // every base also goes through the digest machinery unmodified
    } else {
      int k = (int)rng.range(0, 9);
      tzg::Spec sp;
      if (k < 5 && tzg::from_bytes(bytes, &sp)) {
        label = "spec:" + tzg::mutate_spec(&sp, rng);
        bytes = tzg::emit(sp);
        if (k == 4) label += "|bytes:" + tzg::mutate_bytes(&bytes, bases[rng.next() % bases.size()].bytes, rng);
      } else {
        label = "bytes:" + tzg::mutate_bytes(&bytes, bases[rng.next() % bases.size()].bytes, rng);
      }
    }
    ctx.stat("C12.cases_generated");
    if (bytes.size() > 65536) {
      ctx.stat("C12.skipped_over_64KiB");
      return;
    }
    int64_t alloc = tzg::declared_alloc(bytes);
    if (alloc > (64LL << 20)) {
      ctx.stat("C12.skipped_declares_over_64MiB");
      return;
    }
    std::string cls = input_class(bytes);
    std::string mut = label.substr(0, label.find_first_of("+|"));
    ctx.stat("C12.mutation." + mut);
    ctx.stat("C12.class." + cls);
    if (!savedir.empty()) {
      std::ofstream o(savedir + "/case" + std::to_string(c) + ".tzif", std::ios::binary);
      o << bytes;
    }
    // data-derived instants
    std::vector<int64_t> extra;
    {
      orc::TZif z;
      if (orc::parse_tzif(bytes, &z).empty()) {
        size_t nt = z.times.size();
        for (size_t i = 0; i < nt; ++i) {
          if (i >= 10 && i + 10 < nt) continue;
          for (int d : {-1, 0, 1}) {
            i128 v = (i128)z.times[i] + d;
            if (orc::fits64(v)) extra.push_back((int64_t)v);
          }
        }
      }
    }
    Digest d[2];
    bool okv[2];
    for (int rep = 0; rep < 2; ++rep) {
      std::string name = "V/H/" + std::to_string(c) + (rep ? "/b" : "/a");
      zsrc::put(name, bytes);
      ctx.set_case("class=%s op=load#%d base=%s/%s mutation=%s size=%zu", cls.c_str(), rep + 1, base.cls.c_str(), base.name.c_str(), label.c_str(), bytes.size());
      cctz::time_zone tz = cctz::fixed_time_zone(cctz::seconds(3600));  // must be overwritten with UTC on failure
      bool ok = cctz::load_time_zone(name, &tz);
      zsrc::erase(name);
      okv[rep] = ok;
      ctx.stat("C12.evaluations");
      if (!ok && !(tz == cctz::utc_time_zone())) ctx.viol("C12", "failed-load-not-utc:" + cls, "mutation=" + label + " base=" + base.name);
      if (ok && tz.name() != name) ctx.viol("C12", "loaded-zone-wrong-name:" + cls, "mutation=" + label);
      ctx.set_case("class=%s op=queries-after-load#%d ok=%d base=%s/%s mutation=%s size=%zu", cls.c_str(), rep + 1, ok, base.cls.c_str(), base.name.c_str(), label.c_str(), bytes.size());
      digest_zone(tz, ok, extra, &d[rep], rep == 1);
    }
    ctx.stat(okv[0] ? "C12.loads_succeeded" : "C12.loads_failed");
    if (okv[0]) ctx.stat("C12.loaded." + cls);
    ctx.distinct("C12", sup::fnvs(bytes));
    if (d[0].h != d[1].h || okv[0] != okv[1]) {
      ctx.viol("C12", "outcome-depends-on-load-or-query-order:" + cls, "mutation=" + label + " base=" + base.name + " first=" + d[0].text.substr(0, 300) + " second=" + d[1].text.substr(0, 300));
    }
    fprintf(ctx.out, "DIGEST\t%ld\t%016llx\t%d\t%s\t%s\n", c, (unsigned long long)d[0].h, okv[0] ? 1 : 0, cls.c_str(), sup::esc(label).c_str());
    if (digest_only) return;
    if (c % 4001 == 17)
      ctx.sample("C12", "case " + std::to_string(c) + ": base=" + base.cls + "/" + base.name + " mutation=" + label + " size=" + std::to_string(bytes.size()) +
                            " class=" + cls + " -> load=" + (okv[0] ? "ok " : "fail ") + d[0].text.substr(0, 120), 4);
  });
}
