// C14: results never depend on call history. One case = one zone.
//  (1) hint-state enumeration: every table index reachable through one state-setting query, in both
//      directions, against a 24-query probe panel, compared with a second copy of the zone (same
//      bytes, other name) whose history is a fixed unrelated query; the hint hook proves which
//      states and how many hint hits were exercised.
//  (2) random histories on copy A vs independent random histories on copy B vs freshly loaded copies.
//  (3) name cache: counting data source; repeat loads, failed names.
//   histmon --zones LIST --seed N --tier quick|thorough --out DIR
#define VERIF_DEFINE_FACTORY
#include <cinttypes>
#include <fstream>
#include <sstream>
#include <unordered_set>

#include "cctz/time_zone.h"
#include "loadcommon.h"
#include "oracle.h"
#include "sup.h"
#include "tzifgen.h"
#include "zsrc.h"

extern "C" {
extern void (*cctz_verif_hint_hook)(const void* zone, int dir, std::size_t hint, int hit);
}

using orc::Civ;

struct HintObs {
  long stores[2] = {0, 0}, hits[2] = {0, 0};
  std::unordered_set<uint64_t> stored_states;  // (zone ptr, dir, hint)
  std::unordered_set<uint64_t> hit_states;
  size_t last_hint[2] = {0, 0};
  int last_hit[2] = {-1, -1};
};
static HintObs g_h;
static void hint_hook(const void* zone, int dir, std::size_t hint, int hit) {
  uint64_t key = sup::mix(sup::mix(reinterpret_cast<uint64_t>(zone), static_cast<uint64_t>(dir)), hint);
  if (hit) {
    ++g_h.hits[dir];
    g_h.hit_states.insert(key);
  } else {
    ++g_h.stores[dir];
    g_h.stored_states.insert(key);
  }
  g_h.last_hint[dir] = hint;
  g_h.last_hit[dir] = hit;
}

static std::string abs_str(const cctz::time_zone& tz, int64_t t) {
  auto al = tz.lookup(mk(t));
  std::ostringstream o;
  o << cs_str(al.cs) << " " << al.offset << " " << al.is_dst << " " << al.abbr;
  return o.str();
}
static std::string civ_str(const cctz::time_zone& tz, const cctz::civil_second& cs) {
  auto cl = tz.lookup(cs);
  std::ostringstream o;
  o << cl.kind << " " << un(cl.pre) << " " << un(cl.trans) << " " << un(cl.post);
  return o.str();
}
static cctz::civil_second to_cs(i128 L) {
  Civ c = orc::civ_from_secs(L);
  return cctz::civil_second(static_cast<int64_t>(c.y), c.m, c.d, c.H, c.M, c.S);
}

struct ZoneEnt {
  std::string cls, name, path;
};

struct Mon {
  sup::Ctx& ctx;
  const ZoneEnt& ze;
  sup::Rng rng;
  bool thorough;
  orc::Zone Z;
  std::string bytes;
  cctz::time_zone A, B;
  long serial = 0;
  long bulk_n = 0;
  Mon(sup::Ctx& c, const ZoneEnt& z, uint64_t seed, bool th) : ctx(c), ze(z), rng(seed, sup::fnvs(z.name)), thorough(th) {}
  std::string zid() const { return ze.cls + "/" + ze.name; }

  bool load_copy(const std::string& tag, cctz::time_zone* tz) {
    std::string n = "V/H14/" + ze.cls + "/" + ze.name + "/" + tag;
    zsrc::put(n, bytes);
    bool ok = cctz::load_time_zone(n, tz);
    zsrc::erase(n);
    return ok;
  }

  // breakpoints of the internal table: recorded transition times + rule transitions
  std::vector<int64_t> breakpoints() {
    std::vector<int64_t> b(Z.f.times.begin(), Z.f.times.end());
    if (Z.px_rules && !Z.f.times.empty()) {
      i128 y0 = orc::civ_from_secs((i128)Z.f.times.back() + Z.px.std_off).y;
      int stride = thorough ? 1 : 7;
      for (i128 y = y0 - 1; y <= y0 + 404; ++y) {
        if (y > y0 + 3 && y < y0 + 396 && orc::fmod(y, stride) != 0) continue;
        for (i128 t : {Z.start_of(y), Z.end_of(y)})
          if (t > Z.f.times.back() && orc::fits64(t)) b.push_back((int64_t)t);
      }
    }
    b.push_back(2147483647);      // the trailing sentinel some zones get
    b.push_back(-((int64_t)1 << 59));
    std::sort(b.begin(), b.end());
    b.erase(std::unique(b.begin(), b.end()), b.end());
    return b;
  }

  void hint_states() {
    std::vector<int64_t> bp = breakpoints();
    size_t n = bp.size();
    const int64_t unrelated = 86400 * 365 * 3 + 12345;
    size_t confirmed_hits = 0;
    for (size_t i = 0; i < n; ++i) {
      // ---- instant direction
      int64_t s = bp[i] < INT64_MAX - 10 ? bp[i] + 5 : bp[i];
      std::vector<int64_t> probes;
      auto add = [&](i128 v) {
        if (orc::fits64(v)) probes.push_back((int64_t)v);
      };
      for (int d : {-1, 0, 1}) {
        add((i128)bp[i] + d);
        if (i > 0) add((i128)bp[i - 1] + d);
        if (i + 1 < n) add((i128)bp[i + 1] + d);
      }
      add((i128)bp[0] - 10);
      add((i128)bp[n - 1] + 1000000);
      add(bp[(i + n / 2) % n] + 1);
      add(bp[(i + n / 3) % n]);
      add((i128)bp[i] + (i128)146097 * 86400);
      add((i128)bp[i] + (i128)146097 * 86400 * 5);
      add(s + 1);  // same interval as the state-setting query: must be answered from the hint
      add(INT64_MAX);
      add(INT64_MIN);
      for (int64_t q : probes) {
        ctx.set_case("zone=%s path=%s op=hint-state dir=instant state-query=%" PRId64 " probe=%" PRId64, zid().c_str(), ze.path.c_str(), s, q);
        A.lookup(mk(s));
        g_h.last_hit[0] = -1;
        std::string a = abs_str(A, q);
        bool hit = g_h.last_hit[0] == 1;
        B.lookup(mk(unrelated));
        std::string b = abs_str(B, q);
        ctx.stat("C14.evaluations");
        ctx.stat("C14.hint_state_probes");
        if (hit) ++confirmed_hits;
        if (a != b) {
          std::ostringstream d;
          d << "zone=" << zid() << " after lookup(" << s << "), lookup(" << q << ") = '" << a << "' but on a copy with another history '" << b << "'";
          ctx.viol("C14", "history-dependent:instant-hint:" + ze.cls, d.str());
        }
      }
      // ---- civil direction: same breakpoints seen as civil seconds
      orc::Info inf = Z.at(bp[i]);
      i128 Ls = (i128)bp[i] + inf.off + 5;
      std::vector<i128> cprobes;
      for (int d : {-1, 0, 1}) {
        cprobes.push_back((i128)bp[i] + inf.off + d);
        cprobes.push_back((i128)bp[i] + Z.at((i128)bp[i] - 1).off + d);
        if (i > 0) cprobes.push_back((i128)bp[i - 1] + Z.at(bp[i - 1]).off + d);
        if (i + 1 < n) cprobes.push_back((i128)bp[i + 1] + Z.at(bp[i + 1]).off + d);
      }
      cprobes.push_back((i128)bp[(i + n / 2) % n] + 3600);
      cprobes.push_back((i128)bp[0] - 86400);
      cprobes.push_back((i128)bp[n - 1] + 86400 * 400);
      cprobes.push_back((i128)bp[i] + (i128)146097 * 86400 + inf.off);
      cprobes.push_back(Ls + 1);
      i128 Lmax = orc::secs_from_civ(Civ{orc::I64MAX, 12, 31, 23, 59, 59}), Lmin = orc::secs_from_civ(Civ{orc::I64MIN, 1, 1, 0, 0, 0});
      if (Ls > Lmax || Ls < Lmin) continue;
      cctz::civil_second css = to_cs(Ls);
      for (i128 L : cprobes) {
        if (L > Lmax || L < Lmin) continue;
        cctz::civil_second q = to_cs(L);
        ctx.set_case("zone=%s path=%s op=hint-state dir=civil state-query=%s probe=%s", zid().c_str(), ze.path.c_str(), cs_str(css).c_str(), cs_str(q).c_str());
        A.lookup(css);
        g_h.last_hit[1] = -1;
        std::string a = civ_str(A, q);
        bool hit = g_h.last_hit[1] == 1;
        B.lookup(cctz::civil_second(1973, 2, 3, 4, 5, 6));
        std::string b = civ_str(B, q);
        ctx.stat("C14.evaluations");
        ctx.stat("C14.hint_state_probes");
        if (hit) ++confirmed_hits;
        if (a != b) {
          std::ostringstream d;
          d << "zone=" << zid() << " after lookup(" << cs_str(css) << "), lookup(" << cs_str(q) << ") = '" << a << "' but on a copy with another history '" << b << "'";
          ctx.viol("C14", "history-dependent:civil-hint:" + ze.cls, d.str());
        }
      }
    }
    ctx.stat("C14.hint_hits_confirmed_by_hook", confirmed_hits);
    ctx.stat("C14.table_breakpoints_enumerated", n);
  }

  // one random API call on `tz` -> canonical text
  std::string random_call(const cctz::time_zone& tz, sup::Rng& r, const std::vector<int64_t>& pool) {
    int64_t t = orc::clamp64((i128)pool[r.next() % pool.size()] + r.range(-3, 3) * (r.chance(0.5) ? 1 : 3600));
    switch (r.range(0, 6)) {
      case 0: return "L " + abs_str(tz, t);
      case 1: return "C " + civ_str(tz, tz.lookup(mk(t)).cs);
      case 2: {
        cctz::time_zone::civil_transition tr;
        bool ok = tz.next_transition(mk(t), &tr);
        return std::string("N ") + (ok ? cs_str(tr.from) + ">" + cs_str(tr.to) : "-");
      }
      case 3: {
        cctz::time_zone::civil_transition tr;
        bool ok = tz.prev_transition(mk(t), &tr);
        return std::string("P ") + (ok ? cs_str(tr.from) + "<" + cs_str(tr.to) : "-");
      }
      case 4: return "F " + cctz::format("%Y-%m-%dT%H:%M:%S%E*z %Z %j", mk(t), tz);
      case 5: {
        std::string s = cctz::format("%Y-%m-%d %H:%M:%S", mk(t), tz);
        tp_t tp;
        bool ok = cctz::parse("%Y-%m-%d %H:%M:%S", s, tz, &tp);
        return "R " + std::to_string(ok) + " " + (ok ? std::to_string(un(tp)) : "");
      }
      default: return "V " + std::to_string(un(cctz::convert(tz.lookup(mk(t)).cs, tz)));
    }
  }
  void random_histories() {
    std::vector<int64_t> pool;
    for (auto t : Z.f.times) pool.push_back(t);
    for (int64_t t : {(int64_t)0, (int64_t)1700000000, (int64_t)4102444800LL, (int64_t)15000000000LL, (int64_t)-3000000000LL, INT64_MAX - 5, INT64_MIN + 5,
                      (int64_t)1 << 45})
      pool.push_back(t);
    long steps = thorough ? 10000 : 2500;
    sup::Rng ra(rng.next(), 1), rb(rng.next(), 2), rq(rng.next(), 3);
    for (long i = 0; i < steps; ++i) {
      // A and B are driven by independent random histories; the compared query q is drawn separately
      int ha = (int)ra.range(0, 3), hb = (int)rb.range(0, 3);
      for (int j = 0; j < ha; ++j) random_call(A, ra, pool);
      for (int j = 0; j < hb; ++j) random_call(B, rb, pool);
      uint64_t qs = rq.next();
      sup::Rng q1(qs, 9), q2(qs, 9), q3(qs, 9);
      ctx.set_case("zone=%s path=%s op=random-history step=%ld", zid().c_str(), ze.path.c_str(), i);
      std::string a = random_call(A, q1, pool), b = random_call(B, q2, pool);
      ctx.stat("C14.evaluations");
      ctx.stat("C14.random_history_steps");
      if (a != b) ctx.viol("C14", "history-dependent:random-history:" + ze.cls, "zone=" + zid() + " step " + std::to_string(i) + ": '" + a + "' vs '" + b + "'");
      if (i % 100 == 0) {
        cctz::time_zone fresh;
        if (load_copy("fresh" + std::to_string(serial++), &fresh)) {
          std::string c = random_call(fresh, q3, pool);
          ctx.stat("C14.fresh_copy_comparisons");
          if (a != c) ctx.viol("C14", "history-dependent:vs-fresh-copy:" + ze.cls, "zone=" + zid() + " step " + std::to_string(i) + ": '" + a + "' vs fresh '" + c + "'");
        }
      }
    }
  }

  // Hostile variants of this zone (structure-aware mutants, as in C12): whatever loads must answer independently of
  // the order in which it is asked. Two copies are driven by independent random histories.
  void hostile_variants() {
    const std::string saved = bytes;
    cctz::time_zone sa = A, sb = B;
    int nmut = thorough ? 24 : 8;
    for (int k = 0; k < nmut; ++k) {
      tzg::Spec sp;
      if (!tzg::from_bytes(saved, &sp)) break;
      std::string label = tzg::mutate_spec(&sp, rng);
      std::string mb = tzg::emit(sp);
      if (rng.chance(0.3)) label += "|" + tzg::mutate_bytes(&mb, saved, rng);
      if (mb.size() > 65536 || tzg::declared_alloc(mb) > (64LL << 20)) continue;
      if (input_class(mb) == "H-ancient-seam") continue;  // known finding D8, kept under observation by C12
      bytes = mb;
      ctx.set_case("zone=%s path=%s op=hostile-variant mutation=%s", zid().c_str(), ze.path.c_str(), label.c_str());
      cctz::time_zone a, b;
      bool oa = load_copy("hA" + std::to_string(serial), &a), ob = load_copy("hB" + std::to_string(serial), &b);
      ++serial;
      ctx.stat("C14.hostile_variants_tried");
      if (oa != ob) ctx.viol("C14", "history-dependent:hostile-load-result", "zone=" + zid() + " mutation=" + label);
      if (!oa || !ob) continue;
      ctx.stat("C14.hostile_variants_loaded");
      std::vector<int64_t> pool = {0, 1700000000, 4102444800LL, -3000000000LL, 15000000000LL, (int64_t)1 << 45};
      orc::TZif tzf;
      if (orc::parse_tzif(mb, &tzf).empty())
        for (size_t i = 0; i < tzf.times.size(); i += std::max<size_t>(1, tzf.times.size() / 12))
          if (tzf.times[i] > INT64_MIN + 100000 && tzf.times[i] < INT64_MAX - 100000) pool.push_back(tzf.times[i]);
      // the generated (footer) region as well: a few instants per year for 6 years after the last recorded transition
      int64_t lastt = tzf.times.empty() ? 0 : tzf.times.back();
      if (lastt > -((int64_t)1 << 58) && lastt < ((int64_t)1 << 58))
        for (int y = 0; y < 6; ++y)
          for (int q = 0; q < 6; ++q) pool.push_back(lastt + y * 31556952LL + q * 5259492LL);
      {
        // where the footer's own rule transitions fall (as far as the oracle can read the variant)
        orc::Zone hz;
        if (hz.init(mb) && hz.has_px && hz.px.has_dst && !hz.px.dst_abbr.empty() && !hz.px_allyear) {
          i128 y0 = orc::civ_from_secs(lastt).y;
          std::vector<int64_t> rulep;
          for (i128 y = y0; y <= y0 + 3; ++y)
            for (i128 b2 : {hz.start_of(y), hz.end_of(y)})
              for (int dd : {-3600, -1, 0, 1800, 3600, 7200})
                if (orc::fits64(b2 + dd)) rulep.push_back((int64_t)(b2 + dd));
          // weight them: the interesting hidden states are next to these instants
          for (int rep2 = 0; rep2 < 3; ++rep2) pool.insert(pool.end(), rulep.begin(), rulep.end());
        }
      }
      sup::Rng ra(rng.next(), 1), rb(rng.next(), 2), rq(rng.next(), 3);
      for (long i = 0; i < 400; ++i) {
        int ha = (int)ra.range(0, 3), hb = (int)rb.range(0, 3);
        for (int j = 0; j < ha; ++j) random_call(a, ra, pool);
        for (int j = 0; j < hb; ++j) random_call(b, rb, pool);
        uint64_t qs = rq.next();
        sup::Rng q1(qs, 9), q2(qs, 9);
        std::string x = random_call(a, q1, pool), y2 = random_call(b, q2, pool);
        ctx.stat("C14.evaluations");
        ctx.stat("C14.hostile_history_steps");
        if (x != y2) {
          ctx.viol("C14", "history-dependent:hostile-variant", "zone=" + zid() + " mutation=" + label + " step " + std::to_string(i) + ": '" + x + "' vs '" + y2 + "'");
          break;
        }
      }
    }
    bytes = saved;
    A = sa;
    B = sb;
  }

  void cache_behaviour() {
    std::string base = "V/H14c/" + ze.cls + "/" + ze.name + "/";
    zsrc::put(base + "ok", bytes);
    zsrc::put(base + "garbage", "TZif2 not really");
    auto calls = [] { return zsrc::st().factory_calls.load(); };
    auto reads = [] { return zsrc::st().reads.load(); };
    cctz::time_zone t1, t2, t3;
    long c0 = calls();
    ctx.set_case("zone=%s op=cache-repeat-load", zid().c_str());
    bool ok1 = cctz::load_time_zone(base + "ok", &t1);
    long c1 = calls(), r1 = reads();
    abs_str(t1, 12345);
    civ_str(t1, cctz::civil_second(2020, 1, 1, 0, 0, 0));
    bool ok2 = cctz::load_time_zone(base + "ok", &t2);
    zsrc::erase(base + "ok");  // data gone: a third load must still be served from the cache
    bool ok3 = cctz::load_time_zone(base + "ok", &t3);
    ctx.stat("C14.evaluations", 3);
    ctx.stat("C14.cache_sequences");
    if (!ok1 || !ok2 || !ok3 || !(t1 == t2) || !(t1 == t3)) ctx.viol("C14", "repeat-load-unequal", "zone=" + zid());
    if (c1 - c0 != 1 || calls() != c1 || reads() != r1)
      ctx.viol("C14", "repeat-load-consults-data-source", "zone=" + zid() + " factory calls first=" + std::to_string(c1 - c0) + " later=" + std::to_string(calls() - c1) + " reads later=" + std::to_string(reads() - r1));
    // failed names keep failing with UTC, also once data would be available
    for (const char* nm : {"missing", "garbage"}) {
      cctz::time_zone f1 = cctz::fixed_time_zone(cctz::seconds(60)), f2 = f1, f3 = f1;
      bool a = cctz::load_time_zone(base + nm, &f1);
      abs_str(t1, 999);
      bool b = cctz::load_time_zone(base + nm, &f2);
      zsrc::put(base + nm, bytes);  // valid data appears under the failed name
      bool c = cctz::load_time_zone(base + nm, &f3);
      zsrc::erase(base + nm);
      ctx.stat("C14.evaluations", 3);
      ctx.stat("C14.failed_name_sequences");
      if (a || b || c) ctx.viol("C14", "failed-name-later-succeeds", "zone=" + zid() + " name=" + nm + " results " + std::to_string(a) + std::to_string(b) + std::to_string(c));
      if (!(f1 == cctz::utc_time_zone()) || !(f2 == cctz::utc_time_zone()) || !(f3 == cctz::utc_time_zone()))
        ctx.viol("C14", "failed-name-not-utc", "zone=" + zid() + " name=" + nm);
    }
  }

  // A long-lived process: n names that fail and n that load, all first; then every one again (data meanwhile available under
  // the failed names, withdrawn from the loaded ones). Whatever the cache does with many entries - bounded tables, eviction,
  // rehashing - must stay invisible: same verdict, equal zones, no further call of the data source.
  void bulk_cache(long n) {
    std::string base = "V/H14bulk/" + ze.name + "/";
    auto calls = [] { return zsrc::st().factory_calls.load(); };
    std::vector<cctz::time_zone> first(static_cast<size_t>(n));
    ctx.set_case("zone=%s op=bulk-cache n=%ld", zid().c_str(), n);
    for (long i = 0; i < n; ++i) {
      std::string ok = base + "ok" + std::to_string(i), bad = base + (i % 2 ? "missing" : "garbage") + std::to_string(i);
      zsrc::put(ok, bytes);
      if (i % 2 == 0) zsrc::put(bad, "TZif2 not really");
      cctz::time_zone f = cctz::fixed_time_zone(cctz::seconds(60));
      bool a = cctz::load_time_zone(bad, &f);
      bool b = cctz::load_time_zone(ok, &first[static_cast<size_t>(i)]);
      if (a || !(f == cctz::utc_time_zone()) || !b) {
        ctx.viol("C14", "bulk:first-load", "zone=" + zid() + " i=" + std::to_string(i));
        return;
      }
      zsrc::erase(ok);
      zsrc::put(bad, bytes);
    }
    long c0 = calls();
    long bad_now_ok = 0, bad_not_utc = 0, ok_unequal = 0;
    std::string w;
    for (long i = 0; i < n; ++i) {
      std::string ok = base + "ok" + std::to_string(i), bad = base + (i % 2 ? "missing" : "garbage") + std::to_string(i);
      cctz::time_zone f = cctz::fixed_time_zone(cctz::seconds(60)), g;
      if (cctz::load_time_zone(bad, &f)) { if (!bad_now_ok++) w = bad; }
      if (!(f == cctz::utc_time_zone())) { if (!bad_not_utc++) w = bad; }
      if (!cctz::load_time_zone(ok, &g) || !(g == first[static_cast<size_t>(i)])) { if (!ok_unequal++) w = ok; }
      zsrc::erase(bad);
    }
    long later = calls() - c0;
    ctx.stat("C14.evaluations", 4 * n);
    ctx.stat("C14.bulk_cache_names", 2 * n);
    if (bad_now_ok) ctx.viol("C14", "bulk:failed-name-later-succeeds", "zone=" + zid() + " " + std::to_string(bad_now_ok) + " of " + std::to_string(n) + " names, first " + w);
    if (bad_not_utc) ctx.viol("C14", "bulk:failed-name-not-utc", "zone=" + zid() + " " + std::to_string(bad_not_utc) + " names, first " + w);
    if (ok_unequal) ctx.viol("C14", "bulk:repeat-load-unequal", "zone=" + zid() + " " + std::to_string(ok_unequal) + " names, first " + w);
    if (later) ctx.viol("C14", "bulk:repeat-load-consults-data-source", "zone=" + zid() + " factory calls during the second pass: " + std::to_string(later));
  }

  void run() {
    if (!zsrc::read_file(ze.path, &bytes) || !Z.init(bytes)) {
      ctx.note("cannot use " + ze.path + ": " + Z.err);
      ctx.stat("harness_errors");
      return;
    }
    if (!load_copy("A", &A) || !load_copy("B", &B)) {
      ctx.viol("C14", "load-failed:" + ze.cls, "zone=" + zid());
      return;
    }
    ctx.stat("C14.zones");
    size_t st0 = g_h.stored_states.size(), ht0 = g_h.hit_states.size();
    long s0 = g_h.stores[0] + g_h.stores[1], h0 = g_h.hits[0] + g_h.hits[1];
    hint_states();
    ctx.stat("C14.distinct_nontrivial", g_h.hit_states.size() - ht0);
    ctx.stat("C14.distinct_hint_states_stored", g_h.stored_states.size() - st0);
    ctx.stat("C14.distinct_hint_states_hit", g_h.hit_states.size() - ht0);
    ctx.stat("C14.hint_stores_seen_by_hook", g_h.stores[0] + g_h.stores[1] - s0);
    ctx.stat("C14.hint_hits_seen_by_hook", g_h.hits[0] + g_h.hits[1] - h0);
    random_histories();
    hostile_variants();
    cache_behaviour();
    if (bulk_n > 0) bulk_cache(bulk_n);
    ctx.sample("C14", "zone=" + zid() + ": " + std::to_string(g_h.stored_states.size() - st0) + " distinct hint states stored, " +
                          std::to_string(g_h.hit_states.size() - ht0) + " answered from the hint; e.g. after lookup(t) on copy A, lookup(t+1) hit the hint and equalled copy B's answer", 3);
  }
};

int main(int argc, char** argv) {
  sup::Args a(argc, argv);
  std::vector<ZoneEnt> zones;
  {
    std::ifstream f(a.get("zones"));
    std::string line;
    while (std::getline(f, line)) {
      std::istringstream ss(line);
      ZoneEnt z;
      std::getline(ss, z.cls, '\t');
      std::getline(ss, z.name, '\t');
      std::getline(ss, z.path, '\t');
      if (z.cls == "F" || z.cls == "S-ancient" || z.path.empty()) continue;
      zones.push_back(z);
    }
  }
  if (zones.empty()) {
    fprintf(stderr, "no zones\n");
    return 2;
  }
  uint64_t seed = static_cast<uint64_t>(a.getl("seed", 0));
  bool thorough = a.get("tier", "quick") == "thorough";
  sup::Options opt = sup::options_from(a);
  cctz_verif_hint_hook = hint_hook;
  return sup::supervise(static_cast<long>(zones.size()), opt, [&](long c, sup::Ctx& ctx) {
    Mon m(ctx, zones[c], seed, thorough);
    m.bulk_n = (c % 64 == 0) ? (thorough ? 20000 : 1500) : 0;
    m.run();
  });
}
