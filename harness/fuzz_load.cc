// libFuzzer target for C12: arbitrary bytes -> load through the replaced zone-data factory ->
// the same query panel as the monitor. Built with clang -fsanitize=fuzzer,address,undefined.
// The name cache never frees a zone, so the target drives the internal TimeZoneIf directly
// (same Load code path, no cache) for every input and goes through load_time_zone only for
// every 64th one.
#define VERIF_DEFINE_FACTORY
#include <cstdio>
#include <cstdlib>

#include "loadcommon.h"
#include "time_zone_if.h"
#include "tzifgen.h"
#include "zsrc.h"

extern "C" int LLVMFuzzerTestOneInput(const uint8_t* data, size_t size) {
  static long n = 0;
  ++n;
  std::string bytes(reinterpret_cast<const char*>(data), size);
  if (size > 65536) return 0;
  if (tzg::declared_alloc(bytes) > (64LL << 20)) return 0;
  const std::string cls = input_class(bytes);
  if (getenv("VERIF_PRINT_CLASS")) fprintf(stderr, "INPUT-CLASS: %s\n", cls.c_str());
  // the known finding D8 (ancient seam) would end every fuzz job at its first hit: it is kept under observation by the
  // mutator leg of the monitor instead, and excluded here so that the fuzzer explores everything else
  if (cls == "H-ancient-seam") return 0;
  const std::string name = "V/F/fuzz";
  zsrc::put(name, bytes);
  std::unique_ptr<cctz::TimeZoneIf> z = cctz::TimeZoneIf::Make(name);
  if (z) {
    cctz::time_zone::civil_transition tr;
    for (int64_t t : kFixed) {
      auto al = z->BreakTime(mk(t));
      auto cl = z->MakeTime(al.cs);
      (void)cl;
      z->NextTransition(mk(t), &tr);
      z->PrevTransition(mk(t), &tr);
    }
    z->MakeTime(cctz::civil_second::max());
    z->MakeTime(cctz::civil_second::min());
    tp_t t = tp_t::min();
    for (int i = 0; i < 300 && z->NextTransition(t, &tr); ++i) {
      tp_t nt = z->MakeTime(tr.to).trans;
      z->BreakTime(nt);
      z->MakeTime(tr.from);
      if (nt <= t) break;
      t = nt;
    }
    (void)z->Description();
  }
  if (n % 64 == 0) {
    static long serial = 0;
    std::string nm = "V/F/" + std::to_string(serial++);
    zsrc::put(nm, bytes);
    cctz::time_zone tz;
    bool ok = cctz::load_time_zone(nm, &tz);
    zsrc::erase(nm);
    if (ok != (z != nullptr)) abort();  // the two paths must agree on acceptance
    if (!ok && !(tz == cctz::utc_time_zone())) abort();
  }
  return 0;
}
