// Format/parse monitors: C07 (round trip), C08 (rendering + no UB on any format), C09 (reference
// parser differential + no UB on any pair), C18 (sub-second flooring over a panel of durations).
//   fmtmon --prop C07|C08|C09|C18 --zones LIST --seed N --tier quick|thorough --out DIR
#define VERIF_DEFINE_FACTORY
#include <cinttypes>
#include <fstream>
#include <sstream>

#include "cctz/time_zone.h"
#include "fmtmodel.h"
#include "oracle.h"
#include "sup.h"
#include "zsrc.h"

using orc::Civ;
using orc::i128;
typedef cctz::time_point<cctz::seconds> tp_t;
static inline tp_t mk(int64_t t) { return tp_t(cctz::seconds(t)); }
static inline int64_t un(tp_t tp) { return tp.time_since_epoch().count(); }
static std::string S(i128 v) { return orc::str(v); }

struct ZoneRec {
  std::string cls, name, path, flags;
  bool loaded = false, ok = false, have_oracle = false;
  cctz::time_zone tz;
  orc::Zone Z;
};
static std::vector<ZoneRec> g_zones;

static ZoneRec& zone(size_t i) {
  ZoneRec& z = g_zones[i % g_zones.size()];
  if (z.loaded) return z;
  z.loaded = true;
  std::string bytes;
  if (!zsrc::read_file(z.path, &bytes)) return z;
  z.have_oracle = z.Z.init(bytes);
  size_t fx = z.flags.find("fixed=");
  if (fx != std::string::npos) {
    z.tz = cctz::fixed_time_zone(cctz::seconds(atol(z.flags.c_str() + fx + 6)));
    z.ok = true;
  } else {
    std::string name = "V/" + z.cls + "/" + z.name;
    zsrc::put(name, bytes);
    z.ok = cctz::load_time_zone(name, &z.tz);
  }
  return z;
}

static int64_t rnd_instant(sup::Rng& r, const ZoneRec& z) {
  if (r.chance(0.04)) {
    static const int64_t k[] = {INT64_MIN, INT64_MIN + 1, INT64_MAX, INT64_MAX - 1, 0, -1, 1, -62135596800LL, -62135596801LL, 253402300799LL, 253402300800LL};
    if (r.chance(0.4)) {
      // years where struct tm's int year saturates: INT_MAX + 1900 and INT_MIN + 1900, +- a few years
      i128 y = (r.chance(0.5) ? (i128)INT_MAX + 1900 : (i128)INT_MIN + 1900) + r.range(-1902, 3);
      if (r.chance(0.3)) y = (r.chance(0.5) ? (i128)INT_MAX : (i128)INT_MIN) + r.range(-2, 2);
      return (int64_t)(orc::days_from_civil(y, (int)r.range(1, 12), (int)r.range(1, 28)) * 86400 + r.range(0, 86399));
    }
    return k[r.range(0, 10)];
  }
  switch (r.range(0, 8)) {
    case 0: return (int64_t)r.next();
    case 1: return r.range(-3000000000LL, 5000000000LL);
    case 2: return INT64_MAX - r.range(0, 200000);
    case 3: return INT64_MIN + r.range(0, 200000);
    case 4: return r.range(-350000000000LL, 350000000000LL);  // years -9000..13000: 4<->5 digit and sign boundaries
    case 5: return -62135596800LL + r.range(-86400LL * 800, 86400LL * 800);  // around year 0/1
    case 6: {
      if (z.have_oracle && !z.Z.f.times.empty()) return z.Z.f.times[r.next() % z.Z.f.times.size()] + r.range(-2, 2);
      return r.range(0, 2000000000);
    }
    case 7: return 253402300800LL + r.range(-86400 * 2, 86400 * 2);  // year 9999/10000
    default: return -62167219200LL - 31556952LL * r.range(0, 2000);     // negative years
  }
}
static int64_t rnd_femto(sup::Rng& r) {
  switch (r.range(0, 5)) {
    case 0: return 0;
    case 1: return 1;
    case 2: return 999999999999999LL;
    case 3: return r.range(0, 999) * 1000000000000LL;
    case 4: return r.range(1, 9) * (int64_t)fm::p10((int)r.range(0, 14));
    default: return r.range(0, 999999999999999LL);
  }
}
static fm::Fields fields_of(const cctz::time_zone& tz, int64_t u, int64_t f) {
  auto al = tz.lookup(mk(u));
  fm::Fields F;
  F.cs = Civ{(i128)al.cs.year(), al.cs.month(), al.cs.day(), al.cs.hour(), al.cs.minute(), al.cs.second()};
  F.offset = al.offset;
  F.is_dst = al.is_dst;
  F.abbr = al.abbr;
  F.unix_time = u;
  F.femto = f;
  return F;
}

// ---------------------------------------------------------------------------- C07
static void c07_chunk(sup::Ctx& ctx, sup::Rng& r, long n) {
  static const char* dates[] = {"%Y-%m-%d", "%d/%m/%Y", "%m.%d.%Y", "%Y %b %d", "%B %d %Y", "%Y %U %w", "%Y %W %u", "%Y %U %a", "%Y %W %A",
                                "%E4Y-%m-%d", "%d %h %Y", "%Y%t%m%n%d", "%Y-%m- %e", "%EY-W%U-%u", "%EY %W %w"};
  static const char* times[] = {"%H:%M:%E*S", "%H:%M:%S.%E*f", "%H:%M:%E15S", "%I:%M:%E*S %p", "%H:%M:%S %E15f", "%T.%E*f", "%R:%E*S", "%H.%M.%E18S",
                                "%l:%M:%E*S %p", "%H%M %E*S", "%p %I:%M:%E*S", "%p|%l.%M.%E*S"};
  static const char* offs[] = {"%E*z", "%::z", "%:::z", "%z", "%Ez", "%:z"};
  for (long i = 0; i < n; ++i) {
    ZoneRec& z = zone(r.next());
    if (!z.ok) continue;
    int64_t u = rnd_instant(r, z);
    int64_t f = rnd_femto(r);
    auto al = z.tz.lookup(mk(u));
    int di = (int)r.range(0, 14), ti = (int)r.range(0, 11), oi = (int)r.range(0, 5);
    if (di == 9 && (al.cs.year() < -999 || al.cs.year() > 9999)) di = 0;
    if (di >= 13 && (al.cs.year() < 1 || al.cs.year() > 9999)) di = 5;  // glibc strptime's %EY: years 1..9999
    if (oi >= 3 && al.offset % 60 != 0) oi = (int)r.range(0, 2);
    std::string D = dates[di], T = times[ti], O = offs[oi], fmt;
    switch (r.range(0, 3)) {
      case 0: fmt = D + " " + T + " " + O; break;
      case 1: fmt = O + "|" + T + "|" + D; break;
      case 2: fmt = T + "T" + D + " " + O; break;
      default: fmt = D + "%ET" + T + O; break;
    }
    bool ps = r.chance(0.08);
    if (ps) {
      // %s overrides every other field, also fields that could not stand alone (a month and day without a year)
      static const char* const kWithS[] = {"%s", "%s", "@%s ", "%m/%d %s", "%b %d %H:%M:%S %s", "%s %H:%M", "%d.%m. %s", "%s %Y-%m-%d %H:%M:%S"};
      int k = (int)r.range(0, 7);
      fmt = kWithS[k];
      if (k == 2) fmt += O;
    }
    ZoneRec& pz = zone(r.next());
    if (!pz.ok) continue;
    // sometimes the same format is used twice in a row, the second time for a sibling instant with the same month, day
    // and time of day one to six years away (nothing remembered from one call may show in the next)
    const int nsib = r.chance(0.1) ? 2 : 1;
    for (int sib = 0; sib < nsib; ++sib) {
    if (sib == 1) {
      if (al.cs.month() == 2 && al.cs.day() == 29) break;
      i128 dy = (i128)r.range(1, 6) * (r.chance(0.5) ? 1 : -1);
      i128 y0 = al.cs.year();
      if ((di == 9 && (y0 + dy < -999 || y0 + dy > 9999)) || (di >= 13 && (y0 + dy < 1 || y0 + dy > 9999))) break;
      i128 shift = (orc::days_from_civil(y0 + dy, al.cs.month(), al.cs.day()) - orc::days_from_civil(y0, al.cs.month(), al.cs.day())) * 86400;
      if (!orc::fits64((i128)u + shift)) break;
      u = static_cast<int64_t>((i128)u + shift);
      al = z.tz.lookup(mk(u));
      if (oi >= 3 && al.offset % 60 != 0) break;  // the minute-granular offset forms would lose the seconds
      if ((di == 9 && (al.cs.year() < -999 || al.cs.year() > 9999)) || (di >= 13 && (al.cs.year() < 1 || al.cs.year() > 9999))) break;
      ctx.stat("C07.sibling_calls");
    }
    ctx.set_case("class=%s op=format-parse zone=%s/%s t=%" PRId64 " f=%" PRId64 " fmt=%s parse-zone=%s/%s", z.cls.c_str(), z.cls.c_str(), z.name.c_str(), u, f,
                 fmt.c_str(), pz.cls.c_str(), pz.name.c_str());
    std::string s = cctz::detail::format(fmt, mk(u), cctz::detail::femtoseconds(f), z.tz);
    tp_t tp;
    cctz::detail::femtoseconds fs;
    bool ok = cctz::detail::parse(fmt, s, pz.tz, &tp, &fs);
    ctx.stat("C07.evaluations");
    ctx.stat(std::string("C07.zones.") + z.cls);
    bool good = ok && un(tp) == u && (ps || fs.count() == f);
    int a = al.offset < 0 ? -al.offset : al.offset;
    if (a % 60) ctx.stat("C07.offsets_with_seconds");
    if (al.cs.year() < 0) ctx.stat("C07.negative_years");
    if (al.cs.year() > 9999) ctx.stat("C07.years_beyond_4_digits");
    if (((di >= 5 && di <= 8) || di >= 13) && !ps) ctx.stat("C07.week_number_dates");
    ctx.distinct_local.insert(sup::mix(sup::mix(sup::fnvs(fmt), (uint64_t)u), (uint64_t)f));
    if (!good) {
      std::string key = a >= 86400 ? "zone-offset-magnitude-24h:parse-rejects-own-output"
                                   : std::string("roundtrip:") + (ok ? "different-instant" : "rejected") + ":" + z.cls + (sib ? ":sibling-call" : "");
      std::ostringstream d;
      d << "zone=" << z.cls << "/" << z.name << " t=" << u << " f=" << f << " fmt='" << fmt << "' text='" << s << "' parse-zone=" << pz.cls << "/" << pz.name
        << " ok=" << ok << " got=" << (ok ? un(tp) : 0) << " fs=" << (ok ? fs.count() : 0);
      ctx.viol("C07", key, d.str());
    } else if (i == 7 && sib == 0) {
      ctx.sample("C07", "zone=" + z.cls + "/" + z.name + " t=" + std::to_string(u) + " f=" + std::to_string(f) + " fmt='" + fmt + "' -> '" + s + "' -> parsed back in " +
                            pz.cls + "/" + pz.name + " exactly");
    }
    }  // sibling loop
  }
  ctx.stat("C07.distinct_nontrivial", ctx.distinct_local.size());
}

// ---------------------------------------------------------------------------- C08
// One generated format = a list of tokens, so that the expectation can be rendered for more than one instant.
struct C08Tok {
  int kind;  // 0 literal, 1 library token, 2 %E<n>S/f, 3 strftime-delegated token, 4 delegated zone-ish token
  std::string text;
  int id = 0, nd = 0;
  bool withS = false, ydep = false;
};
// strftime tokens whose output depends on tm_isdst (and on tm_zone/tm_gmtoff, which the library leaves unset):
// accepted renderings are strftime on the reported fields with tm_zone/tm_gmtoff unset, or set from the fields
static const char* const kZoneish[] = {"%EZ", "%OZ", "%^Z", "%#Z", "%Oz"};
static std::string render_zoneish(const char* tok, const fm::Fields& F, bool filled) {
  std::tm t = F.tm();
  if (filled) {
    t.tm_gmtoff = F.offset;
    t.tm_zone = F.abbr.c_str();
  }
  char buf[1024];
  size_t n = strftime(buf, sizeof buf, tok, &t);
  return std::string(buf, n);
}
// returns false if the format is outside the generator's domain for these fields (16x cap, year does not fit tm)
static bool c08_render(const std::vector<C08Tok>& toks, const fm::Fields& F, bool filled, std::string* exp) {
  std::string run_fmt, run_exp;
  bool capped = false;
  auto flush_run = [&]() {
    if (!run_fmt.empty() && run_exp.size() >= run_fmt.size() * 16) capped = true;
    run_fmt.clear();
    run_exp.clear();
  };
  exp->clear();
  for (const C08Tok& t : toks) {
    switch (t.kind) {
      case 0:
        *exp += t.text;
        run_fmt += t.text;
        run_exp += t.text;
        break;
      case 1:
        *exp += fm::render_lib(t.id, F);
        flush_run();
        break;
      case 2:
        *exp += fm::render_frac(t.nd, t.withS, F);
        flush_run();
        break;
      default: {
        if (t.ydep && !F.year_fits_tm()) return false;
        std::string e = t.kind == 3 ? fm::render_sys(t.text.c_str(), F) : render_zoneish(t.text.c_str(), F, filled);
        *exp += e;
        run_fmt += t.text;
        run_exp += e;
        break;
      }
    }
  }
  flush_run();
  return !capped;
}
static void c08_wellformed(sup::Ctx& ctx, sup::Rng& r, long n) {
  for (long i = 0; i < n; ++i) {
    ZoneRec& z = zone(r.next());
    if (!z.ok) continue;
    int64_t u = rnd_instant(r, z);
    int64_t f = rnd_femto(r);
    fm::Fields F = fields_of(z.tz, u, f);
    // the monitor checks lookup() against O-ZONE elsewhere (C01); here text vs what lookup reports
    int ntok = (int)r.range(1, 12);
    std::vector<C08Tok> toks;
    // formats without delegated tokens may carry any byte, NUL included, in their literal text (the format is a
    // std::string); in runs handed to strftime a NUL would end the C string, so those stay NUL-free
    const bool nosys = r.chance(0.12);
    for (int k = 0; k < ntok; ++k) {
      int c = (int)r.range(0, 9);
      C08Tok t;
      if (c < 2) {
        int len = (int)r.range(1, 4);
        t.kind = 0;
        for (int j = 0; j < len; ++j) {
          char ch;
          do {
            ch = r.chance(0.6) ? " -:/TZabc.,0123456789EO*"[r.range(0, 23)] : static_cast<char>(r.range(nosys ? 0 : 1, 255));
          } while (ch == '%');
          t.text += ch;
        }
      } else if (c < 7 || nosys) {
        int li = (int)r.range(0, fm::kNumLibToks + 1);
        if (li < fm::kNumLibToks) {
          t.kind = 1;
          t.text = fm::kLibToks[li].text;
          t.id = fm::kLibToks[li].id;
        } else {
          t.kind = 2;
          t.nd = r.chance(0.3) ? (int)r.range(0, 30) : (int)r.range(0, 18);
          if (r.chance(0.03)) t.nd = (int)r.range(1000, 1024);
          t.withS = li == fm::kNumLibToks;
          std::string digits = std::to_string(t.nd);
          if (r.chance(0.15)) digits.insert(0, static_cast<size_t>(r.range(1, 6)), '0');  // any spelling of the count
          t.text = "%E" + digits + (t.withS ? "S" : "f");
        }
      } else if (r.chance(0.06)) {
        t.kind = 4;
        t.text = kZoneish[r.range(0, 4)];
      } else {
        const fm::SysTok* st;
        do {
          st = &fm::kSysToks[r.range(0, fm::kNumSysToks - 1)];
        } while (st->ydep && !F.year_fits_tm());
        t.kind = 3;
        t.text = st->text;
        t.ydep = st->ydep;
      }
      toks.push_back(t);
    }
    if (!nosys && r.chance(0.03)) {
      // one delegated token repeated back to back (a single long run handed to strftime: the library's retry with
      // growing buffers up to 16 times the run's length is what decides whether it renders)
      const fm::SysTok* st;
      do {
        st = &fm::kSysToks[r.range(0, fm::kNumSysToks - 1)];
      } while (st->ydep && !F.year_fits_tm());
      C08Tok rt;
      rt.kind = 3;
      rt.text = st->text;
      rt.ydep = st->ydep;
      C08Tok head = toks.front(), tail = toks.back();
      toks.clear();
      if (head.kind == 1 && r.chance(0.5)) toks.push_back(head);
      int reps = (int)r.range(2, 40);
      for (int k = 0; k < reps; ++k) toks.push_back(rt);
      if (tail.kind == 1 && r.chance(0.5)) toks.push_back(tail);
      ctx.stat("C08.repeated_token_runs");
    }
    std::string fmt;
    bool zoneish = false;
    for (auto& t : toks) {
      fmt += t.text;
      zoneish = zoneish || t.kind == 4;
    }
    // the same format is rendered for the drawn instant and, sometimes, straight afterwards for a sibling instant that
    // shares month, day and time of day but lies one to six years away (anything remembered between calls must not leak)
    int nsib = r.chance(0.12) ? 2 : 1;
    for (int sib = 0; sib < nsib; ++sib) {
      if (sib == 1) {
        i128 dy = (i128)r.range(1, 6) * (r.chance(0.5) ? 1 : -1);
        if (F.cs.m == 2 && F.cs.d == 29) break;
        i128 shift = (orc::days_from_civil(F.cs.y + dy, F.cs.m, F.cs.d) - orc::days_from_civil(F.cs.y, F.cs.m, F.cs.d)) * 86400;
        if (!orc::fits64((i128)u + shift)) break;
        u = static_cast<int64_t>((i128)u + shift);
        F = fields_of(z.tz, u, f);
        ctx.stat("C08.sibling_instants");
      }
      std::string exp, exp2;
      if (!c08_render(toks, F, false, &exp)) {
        ctx.stat("C08.skipped_over_16x_cap");
        continue;
      }
      if (zoneish) c08_render(toks, F, true, &exp2);
      ctx.set_case("class=wellformed op=format zone=%s/%s t=%" PRId64 " f=%" PRId64 " fmt-hex=%s", z.cls.c_str(), z.name.c_str(), u, f, sup::hexs(fmt).c_str());
      std::string got = cctz::detail::format(fmt, mk(u), cctz::detail::femtoseconds(f), z.tz);
      ctx.stat("C08.evaluations");
      ctx.stat("C08.wellformed");
      if (zoneish) ctx.stat("C08.formats_with_isdst_dependent_strftime_tokens");
      if (nosys && fmt.find('\0') != std::string::npos) ctx.stat("C08.formats_with_nul_in_literal_text");
      ctx.distinct_local.insert(sup::mix(sup::mix(sup::fnvs(fmt), (uint64_t)u), (uint64_t)f));
      if (got != exp && !(zoneish && got == exp2)) {
        size_t p = 0;
        while (p < got.size() && p < exp.size() && got[p] == exp[p]) ++p;
        std::ostringstream d;
        d << "zone=" << z.cls << "/" << z.name << " t=" << u << " f=" << f << " fmt='" << fmt << "' expected='" << exp << "' got='" << got << "' first difference at " << p
          << (sib ? " (second of two consecutive calls with the same format)" : "");
        ctx.viol("C08", sib ? "render-mismatch:sibling-call" : "render-mismatch", d.str());
      } else if (i == 3 && sib == 0) {
        ctx.sample("C08", "zone=" + z.cls + "/" + z.name + " t=" + std::to_string(u) + " f=" + std::to_string(f) + " fmt='" + fmt + "' -> '" + got + "' (= concatenation of per-token expectations)");
      }
    }
  }
}
static std::string malformed_format(sup::Rng& r) {
  std::string s;
  int n = (int)r.range(0, 10);
  for (int i = 0; i < n; ++i) {
    switch (r.range(0, 13)) {
      case 0: s += "%"; break;
      case 1: s += "%E"; break;
      case 2: s += "%E*"; break;
      case 3: s += "%:"; break;
      case 4: s += "%::"; break;
      case 5: s += "%:::"; break;
      case 6: {
        s += "%E";
        int d = r.chance(0.2) ? (int)r.range(20, 400) : (int)r.range(1, 6);
        for (int k = 0; k < d; ++k) s += static_cast<char>('0' + r.range(0, 9));
        if (r.chance(0.6)) s += "Sfz*Y T"[r.range(0, 6)];
        break;
      }
      case 7: s += std::string(static_cast<size_t>(r.range(1, 9)), '%'); break;
      case 8: s += static_cast<char>(r.range(0, 255)); break;
      case 9: s += fm::kLibToks[r.range(0, fm::kNumLibToks - 1)].text; break;
      case 10: s += "%E4"; break;
      case 11: s += "%O"; break;
      case 12: s += std::string("%") + static_cast<char>(r.range(0, 255)); break;
      default: s += fm::kSysToks[r.range(0, fm::kNumSysToks - 1)].text; break;
    }
  }
  if (r.chance(0.1)) s.insert(static_cast<size_t>(r.range(0, (int64_t)s.size())), 1, '\0');
  return s;
}
static void c08_malformed(sup::Ctx& ctx, sup::Rng& r, long n) {
  for (long i = 0; i < n; ++i) {
    ZoneRec& z = zone(r.next());
    if (!z.ok) continue;
    int64_t u = rnd_instant(r, z);
    int64_t f = rnd_femto(r);
    std::string fmt = malformed_format(r);
    ctx.set_case("class=malformed op=format zone=%s/%s t=%" PRId64 " f=%" PRId64 " fmt-hex=%s", z.cls.c_str(), z.name.c_str(), u, f, sup::hexs(fmt).c_str());
    std::string got = cctz::detail::format(fmt, mk(u), cctz::detail::femtoseconds(f), z.tz);
    ctx.stat("C08.evaluations");
    ctx.stat("C08.malformed");
    ctx.distinct_local.insert(sup::mix(sup::fnvs(fmt), (uint64_t)u));
    // the only expectation the statement gives: a format without any '%' (and without NUL) comes back unchanged
    if (fmt.find('%') == std::string::npos && fmt.find('\0') == std::string::npos) {
      ctx.stat("C08.percent_free_formats");
      if (got != fmt) ctx.viol("C08", "literal-passthrough", "fmt-hex=" + sup::hexs(fmt) + " got-hex=" + sup::hexs(got));
    }
  }
}

// ---------------------------------------------------------------------------- C09
struct C09Gen {
  sup::Rng& r;
  explicit C09Gen(sup::Rng& rr) : r(rr) {}
  // Build (format, canonical input) from chosen field values; optionally push one field out of range
  void build(std::string* fmt, std::string* in, i128* year_out) {
    static const char* toks[] = {"%Y", "%m", "%d", "%e", "%H", "%M", "%S", "%z", "%Ez", "%E*z", "%:z", "%::z", "%:::z", "%E*S", "%E3S", "%E*f", "%E9f",
                                 "%E4Y", "%ET", "%s", "%%", " ", "-", ":", "/", "T", ".", "x", "%U", "%W", "%u", "%w"};
    i128 y;
    switch (r.range(0, 5)) {
      case 0: y = 1970 + r.range(-100, 100); break;
      case 1: y = r.range(-10000, 10000); break;
      case 2: y = (int64_t)r.next(); break;
      case 3: y = orc::I64MAX - r.range(0, 2); break;
      case 4: y = orc::I64MIN + r.range(0, 2); break;
      default: y = (r.chance(0.5) ? 292277026596LL : -292277022657LL) + r.range(-1, 1); break;
    }
    *year_out = y;
    int mon = (int)r.range(1, 12), day = (int)r.range(1, 31), hh = (int)r.range(0, 23), mi = (int)r.range(0, 59), ss = (int)r.range(0, 60);
    if (r.chance(0.75)) {
      ss %= 60;
      if (day > 28 && r.chance(0.5)) day = 28;
    }
    // one field just outside its range
    if (r.chance(0.12)) mon = (int)r.range(0, 14);
    if (r.chance(0.12)) day = (int)r.range(0, 33);
    if (r.chance(0.12)) hh = (int)r.range(0, 26);
    if (r.chance(0.12)) mi = (int)r.range(0, 62);
    if (r.chance(0.12)) ss = (int)r.range(0, 63);
    i128 fs = r.chance(0.5) ? 0 : r.range(0, 999999999999999LL);
    int off = r.chance(0.66) ? (int)r.range(-14, 14) * 3600 : (int)r.range(-86399, 86399);
    if (r.chance(0.1)) off = (r.chance(0.5) ? 1 : -1) * (86400 + (int)r.range(0, 7200));
    int nt = (int)r.range(1, 9);
    for (int k = 0; k < nt; ++k) {
      int ti = (int)r.range(0, 31);
      std::string t = toks[ti], v;
      int a = off < 0 ? -off : off;
      char sg = off < 0 ? '-' : '+';
      char b[64];
      switch (ti) {
        case 0: v = fm::dec(y); break;
        case 1: v = fm::dec(mon, r.chance(0.5) ? 2 : 0); break;
        case 2:
        case 3: v = fm::dec(day, r.chance(0.5) ? 2 : 0); break;
        case 4: v = fm::dec(hh, 2); break;
        case 5: v = fm::dec(mi, 2); break;
        case 6: v = fm::dec(ss, 2); break;
        case 7:
          snprintf(b, sizeof b, "%c%02d%02d", sg, a / 3600, a / 60 % 60);
          v = b;
          if (r.chance(0.25)) {
            snprintf(b, sizeof b, "%c%02d%02d%02d", sg, a / 3600, a / 60 % 60, a % 60);
            v = b;
          }
          if (r.chance(0.1)) v += static_cast<char>('0' + r.range(0, 9));  // a dangling digit after the offset
          break;
        case 8:
        case 9:
        case 10:
        case 11:
        case 12: {
          int st = (int)r.range(0, 4);
          if (st == 0) snprintf(b, sizeof b, "%c%02d:%02d", sg, a / 3600, a / 60 % 60);
          else if (st == 1) snprintf(b, sizeof b, "%c%02d:%02d:%02d", sg, a / 3600, a / 60 % 60, a % 60);
          else if (st == 2) snprintf(b, sizeof b, "%c%02d", sg, a / 3600);
          else if (st == 3) snprintf(b, sizeof b, "%c%02d%d", sg, a / 3600, (int)r.range(0, 9));  // one-digit minutes attempt
          else snprintf(b, sizeof b, "%s", r.chance(0.5) ? "Z" : "z");
          v = b;
          break;
        }
        case 13:
        case 14:
          v = fm::dec(ss, 2);
          if (fs != 0 || r.chance(0.5)) {
            std::string fr = fm::dec(fs, 15);
            if (r.chance(0.5))
              while (fr.size() > 1 && fr.back() == '0') fr.pop_back();
            if (r.chance(0.17)) fr += "123";
            v += "." + fr;
          }
          break;
        case 15:
        case 16: {
          std::string fr = fm::dec(fs, 15);
          if (r.chance(0.5))
            while (fr.size() > 1 && fr.back() == '0') fr.pop_back();
          v = r.chance(0.2) ? "" : fr;
          break;
        }
        case 17: {
          i128 y4 = orc::fmod(y, 10000);
          if (r.chance(0.3)) y4 = -r.range(0, 999);
          v = fm::dec(y4, 4);
          if (r.chance(0.1)) v = fm::dec(y4, r.chance(0.5) ? 3 : 5);
          break;
        }
        case 18: v = r.chance(0.5) ? "T" : "t"; break;
        case 19:
          v = fm::dec((i128)(int64_t)r.next());
          if (r.chance(0.2)) v = fm::dec((r.chance(0.5) ? orc::I64MAX : orc::I64MIN) + r.range(-1, 1));
          break;
        case 20: v = "%"; break;
        case 21: v = r.chance(0.33) ? "" : (r.chance(0.5) ? " " : "  \t"); break;
        case 28:
        case 29: v = fm::dec(r.range(0, 54), r.chance(0.5) ? 2 : 0); break;
        case 30: v = fm::dec(r.range(0, 8)); break;
        case 31: v = fm::dec(r.range(0, 7)); break;
        default: v = t; break;
      }
      *fmt += t;
      *in += v;
    }
    // single-character mutation of the input
    int mu = (int)r.range(0, 4);
    static const char al[] = "0123456789-+:. TZz%x";
    if (mu == 1 && !in->empty()) in->erase(static_cast<size_t>(r.range(0, (int64_t)in->size() - 1)), 1);
    else if (mu == 2) in->insert(static_cast<size_t>(r.range(0, (int64_t)in->size())), 1, al[r.range(0, 19)]);
    else if (mu == 3 && !in->empty()) (*in)[static_cast<size_t>(r.range(0, (int64_t)in->size() - 1))] = al[r.range(0, 19)];
    if (r.chance(0.16)) *in = " " + *in;
    if (r.chance(0.16)) *in += "  ";
  }
};
// Inputs denoting instants within a day of either end of the time_point<seconds> range, with and without an
// explicit offset: the overflow -> false rule and its exact boundary.
static void c09_limit_case(sup::Rng& r, std::string* fmt, std::string* in) {
  i128 T = (r.chance(0.5) ? orc::I64MAX : orc::I64MIN) + r.range(-90000, 90000);
  if (r.chance(0.3)) T = (r.chance(0.5) ? orc::I64MAX : orc::I64MIN) + r.range(-3, 3);
  int off = r.chance(0.5) ? (int)r.range(-14, 14) * 3600 : (int)r.range(-86399, 86399);
  bool with_off = r.chance(0.7);
  Civ c = orc::civ_from_secs(T + (with_off ? off : 0));
  if (!orc::fits64(c.y)) return;
  int a = off < 0 ? -off : off;
  char b[64];
  static const char* dfm[] = {"%Y-%m-%d %H:%M:%S", "%Y-%m-%dT%H:%M:%E*S", "%H:%M:%S %d/%m/%Y", "%Y%m%d%H%M%S"};
  int k = (int)r.range(0, 3);
  *fmt = dfm[k];
  snprintf(b, sizeof b, "-%02d-%02d %02d:%02d:%02d", c.m, c.d, c.H, c.M, c.S);
  if (k == 0) *in = fm::dec(c.y) + b;
  if (k == 1) { snprintf(b, sizeof b, "-%02d-%02dT%02d:%02d:%02d", c.m, c.d, c.H, c.M, c.S); *in = fm::dec(c.y) + b + (r.chance(0.5) ? ".5" : ""); }
  if (k == 2) { snprintf(b, sizeof b, "%02d:%02d:%02d %02d/%02d/", c.H, c.M, c.S, c.d, c.m); *in = b + fm::dec(c.y); }
  if (k == 3) { if (c.y < 0) { *fmt = dfm[0]; snprintf(b, sizeof b, "-%02d-%02d %02d:%02d:%02d", c.m, c.d, c.H, c.M, c.S); *in = fm::dec(c.y) + b; } else { snprintf(b, sizeof b, "%02d%02d%02d%02d%02d", c.m, c.d, c.H, c.M, c.S); *in = fm::dec(c.y) + b; } }
  if (k == 3 && c.y >= 0) { *fmt = "%Y %m%d%H%M%S"; snprintf(b, sizeof b, " %02d%02d%02d%02d%02d", c.m, c.d, c.H, c.M, c.S); *in = fm::dec(c.y) + b; }
  if (with_off) {
    if (r.chance(0.5)) { *fmt += " %E*z"; snprintf(b, sizeof b, " %c%02d:%02d:%02d", off < 0 ? '-' : '+', a / 3600, a / 60 % 60, a % 60); }
    else if (a % 60 == 0) { *fmt += " %z"; snprintf(b, sizeof b, " %c%02d%02d", off < 0 ? '-' : '+', a / 3600, a / 60 % 60); }
    else { *fmt += "%::z"; snprintf(b, sizeof b, "%c%02d:%02d:%02d", off < 0 ? '-' : '+', a / 3600, a / 60 % 60, a % 60); }
    *in += b;
  }
}

// Civil times at the edges of the zone's own gaps and overlaps, read without offset; the last second of a minute may be
// written ':60' (denoting the first second of the next minute).
static bool c09_edge_case(sup::Rng& r, const ZoneRec& z, std::string* fmt, std::string* in) {
  if (z.Z.f.times.empty()) return false;
  int64_t T = z.Z.f.times[r.next() % z.Z.f.times.size()];
  if (z.Z.px_rules && r.chance(0.4)) {
    i128 y = orc::civ_from_secs(z.Z.f.times.back()).y + r.range(1, 30);
    i128 b = r.chance(0.5) ? z.Z.start_of(y) : z.Z.end_of(y);
    if (!orc::fits64(b)) return false;
    T = (int64_t)b;
  }
  int o1 = z.Z.at((i128)T - 1).off, o2 = z.Z.at(T).off;
  i128 L = (i128)T + (r.chance(0.5) ? o1 : o2) + r.range(-2, 2);
  if (r.chance(0.3)) L = (i128)T + std::min(o1, o2) + r.range(0, std::abs(o1 - o2) + 1);
  Civ c = orc::civ_from_secs(L);
  bool leap = c.S == 59 && r.chance(0.6);
  char b[96];
  snprintf(b, sizeof b, "-%02d-%02d %02d:%02d:%02d", c.m, c.d, c.H, c.M, leap ? 60 : c.S);
  *fmt = r.chance(0.5) ? "%Y-%m-%d %H:%M:%S" : "%Y-%m-%d %H:%M:%E*S";
  *in = fm::dec(c.y) + b;
  return true;
}

static void c09_model(sup::Ctx& ctx, sup::Rng& r, long n) {
  C09Gen g(r);
  for (long i = 0; i < n; ++i) {
    ZoneRec& z = zone(r.next());
    if (!z.ok || !z.have_oracle) continue;
    std::string fmt, in;
    i128 y;
    if (i % 6 == 5) {
      c09_limit_case(r, &fmt, &in);
      if (fmt.empty()) continue;
      ctx.stat("C09.range_limit_cases");
    } else if (i % 6 == 4) {
      if (!c09_edge_case(r, z, &fmt, &in)) continue;
      ctx.stat("C09.transition_edge_cases");
    } else {
      g.build(&fmt, &in, &y);
    }
    fm::ParseRes m = fm::model_parse(fmt, in);
    if (m.st == fm::ParseRes::OUTSIDE_MODEL) {
      ctx.stat("C09.outside_model");
      continue;
    }
    // resolve a zone-read civil time through O-ZONE
    bool m_ok = m.st == fm::ParseRes::ACCEPT;
    i128 mt = m.t;
    bool nonunique_beyond_range = false;  // input-class predicate for the known finding D14 (computed from the model alone)
    if (m_ok && !m.has_offset) {
      auto ans = z.Z.civil(m.L);
      if (ans.kind == orc::Zone::OUTSIDE_DOMAIN) {
        ctx.stat("C09.dropped_outside_zone_domain");
        continue;
      }
      mt = ans.pre;
      if (ans.kind != orc::Zone::UNIQUE) ctx.stat("C09.skipped_or_repeated_civil_inputs");
      if (!orc::fits64(mt)) {
        m_ok = false;
        nonunique_beyond_range = ans.kind != orc::Zone::UNIQUE;
      }
    }
    ctx.set_case("class=model op=parse zone=%s/%s fmt-hex=%s in-hex=%s", z.cls.c_str(), z.name.c_str(), sup::hexs(fmt).c_str(), sup::hexs(in).c_str());
    tp_t tp;
    cctz::detail::femtoseconds gfs;
    std::string err;
    bool ok = cctz::detail::parse(fmt, in, z.tz, &tp, &gfs, &err);
    ctx.stat("C09.evaluations");
    ctx.stat("C09.model_checked");
    ctx.stat(ok ? "C09.accepted" : "C09.rejected");
    ctx.distinct_local.insert(sup::mix(sup::fnvs(fmt), sup::fnvs(in)));
    bool bad = ok != m_ok || (ok && ((i128)un(tp) != mt || (i128)gfs.count() != m.fs));
    if (bad) {
      std::string what = ok && !m_ok ? "accepts-what-the-documentation-rejects" : (!ok && m_ok ? "rejects-canonical-input" : "different-instant");
      std::ostringstream d;
      d << "zone=" << z.cls << "/" << z.name << " fmt='" << fmt << "' in='" << in << "' cctz ok=" << ok << " t=" << (ok ? un(tp) : 0) << " fs=" << (ok ? gfs.count() : 0)
        << " | model ok=" << m_ok << " t=" << S(mt) << " fs=" << S(m.fs);
      std::string key = "parse:" + what + (fmt.find("z") != std::string::npos && what == "different-instant" ? ":offset-field" : "");
      if (ok && !m_ok && nonunique_beyond_range) key += ":skipped-or-repeated-civil-time-whose-pre-reading-is-beyond-the-range";
      ctx.viol("C09", key, d.str());
    } else if (ok && i % 97 == 0) {
      ctx.sample("C09", "zone=" + z.cls + "/" + z.name + " fmt='" + fmt + "' in='" + in + "' -> t=" + std::to_string(un(tp)) + " fs=" + std::to_string(gfs.count()) + " (model agrees)");
    }
  }
}
static void c09_random(sup::Ctx& ctx, sup::Rng& r, long n) {
  for (long i = 0; i < n; ++i) {
    ZoneRec& z = zone(r.next());
    if (!z.ok) continue;
    std::string fmt = r.chance(0.5) ? malformed_format(r) : "";
    if (fmt.empty()) {
      int k = (int)r.range(1, 8);
      for (int j = 0; j < k; ++j) {
        if (r.chance(0.5)) fmt += fm::kLibToks[r.range(0, fm::kNumLibToks - 1)].text;
        else if (r.chance(0.5)) fmt += fm::kSysToks[r.range(0, fm::kNumSysToks - 1)].text;
        else fmt += " -:/T.%"[r.range(0, 6)];
      }
    }
    std::string in;
    if (r.chance(0.5)) {
      // a formatted instant with a few random edits: deep into the parser
      std::string clean;
      for (char c : fmt)
        if (c != '\0') clean += c;
      in = cctz::detail::format(clean, mk(rnd_instant(r, z)), cctz::detail::femtoseconds(rnd_femto(r)), z.tz);
      int e = (int)r.range(0, 3);
      for (int j = 0; j < e && !in.empty(); ++j) in[static_cast<size_t>(r.range(0, (int64_t)in.size() - 1))] = static_cast<char>(r.range(1, 255));
    } else {
      int len = (int)r.range(0, 40);
      for (int j = 0; j < len; ++j) in += r.chance(0.8) ? "0123456789-+:. TZzAPMapm%JanFebMon"[r.range(0, 32)] : static_cast<char>(r.range(0, 255));
    }
    ctx.set_case("class=random op=parse zone=%s/%s fmt-hex=%s in-hex=%s", z.cls.c_str(), z.name.c_str(), sup::hexs(fmt).c_str(), sup::hexs(in).c_str());
    tp_t tp;
    cctz::detail::femtoseconds gfs;
    bool ok = cctz::detail::parse(fmt, in, z.tz, &tp, &gfs);
    ctx.stat("C09.evaluations");
    ctx.stat("C09.random_pairs");
    if (ok) ctx.stat("C09.random_pairs_accepted");
    ctx.distinct_local.insert(sup::mix(sup::fnvs(fmt), sup::fnvs(in)));
  }
}

// ---------------------------------------------------------------------------- C18
template <typename D>
struct DurMon {
  typedef typename D::rep Rep;
  typedef typename D::period P;
  sup::Ctx& ctx;
  const char* nm;
  cctz::time_zone utc = cctz::utc_time_zone();
  DurMon(sup::Ctx& c, const char* n) : ctx(c), nm(n) {}

  void one(Rep c, const cctz::time_zone& tz, const char* zn) {
    cctz::time_point<D> tp{D{c}};
    i128 num = P::num, den = P::den;
    i128 secs = orc::fdiv((i128)c * num, den);
    i128 rem = (i128)c * num - secs * den;  // in units of 1/den seconds, 0 <= rem < den
    if (!orc::fits64(secs)) return;           // outside the stated range (documented UB)
    ctx.set_case("class=%s op=lookup/convert/format count=%s zone=%s", nm, S((i128)c).c_str(), zn);
    auto al = tz.lookup(tp);
    auto ref = tz.lookup(mk((int64_t)secs));
    ctx.stat("C18.evaluations");
    if (secs < 0 && rem != 0) ctx.stat("C18.negative_non_multiples");
    ctx.distinct_local.insert(sup::mix(sup::fnvs(nm), (uint64_t)(int64_t)c));
    if (!(al.cs == ref.cs) || al.offset != ref.offset)
      ctx.viol("C18", std::string("lookup-not-floor:") + nm, std::string(nm) + " count=" + S((i128)c) + " zone=" + zn);
    if (!(cctz::convert(tp, tz) == ref.cs)) ctx.viol("C18", std::string("convert-not-floor:") + nm, std::string(nm) + " count=" + S((i128)c));
    if constexpr (P::num != 1 && P::den != 1) {
      // a tick that is neither a whole number of seconds nor a unit fraction of one (3/2 s, 2/3 s, NTSC frames): outside
      // the statement's panel as far as fractional digits go (the remainder is carried in ticks of D), but the whole
      // second must still be the floor
      std::string w = cctz::format("%s|%S|%E0S|%H:%M", tp, tz);
      char hm[16];
      snprintf(hm, sizeof hm, "%02d:%02d", ref.cs.hour(), ref.cs.minute());
      std::string we = fm::dec(secs) + "|" + fm::d2(ref.cs.second()) + "|" + fm::d2(ref.cs.second()) + "|" + hm;
      ctx.stat("C18.evaluations");
      ctx.stat("C18.non_unit_fraction_tick_cases");
      if (w != we) ctx.viol("C18", std::string("format-whole-second:") + nm, std::string(nm) + " count=" + S((i128)c) + " got '" + w + "' expected '" + we + "'");
      return;
    } else {
    i128 femto = rem * (i128)1000000000000000LL / den;  // truncated
    std::string s = cctz::format("%s %E15f %E3f %E*S|%E0S|%S|%E18f|%E16S|%E1f|%E*f", tp, tz);
    ctx.stat("C18.evaluations");
    std::string f15 = fm::dec(femto, 15), f3 = fm::dec(femto / fm::p10(12), 3);
    std::string frac = f15;
    while (!frac.empty() && frac.back() == '0') frac.pop_back();
    std::string s2 = fm::d2(ref.cs.second());
    std::string exp = fm::dec(secs) + " " + f15 + " " + f3 + " " + s2 + (frac.empty() ? "" : "." + frac) + "|" + s2 + "|" + s2 + "|" + f15 + "000|" + s2 + "." + f15 +
                      "0|" + fm::dec(femto / fm::p10(14), 1) + "|" + (frac.empty() ? "0" : frac);
    if (s != exp) ctx.viol("C18", std::string("format-fraction:") + nm, std::string(nm) + " count=" + S((i128)c) + " got '" + s + "' expected '" + exp + "'");
    // parse back into D from the full-precision text
    if (den > 1) {
      // only where the floor second itself is representable in D (TODO(#199) in the header is outside the statement)
      i128 fl = secs * den / num;
      if (fl < (i128)std::numeric_limits<Rep>::min() || fl + den > (i128)std::numeric_limits<Rep>::max() ||
          fl - den < (i128)std::numeric_limits<Rep>::min())
        return;
    }
    std::string full = cctz::format("%Y-%m-%d %H:%M:%E*S %E*z", tp, tz);
    cctz::time_point<D> back;
    ctx.set_case("class=%s op=parse-back count=%s text=%s", nm, S((i128)c).c_str(), full.c_str());
    bool ok = cctz::parse("%Y-%m-%d %H:%M:%E*S %E*z", full, utc, &back);
    ctx.stat("C18.evaluations");
    i128 c2 = orc::fdiv(secs * den + orc::fdiv(femto * den, (i128)1000000000000000LL), num);  // floor of the rendered instant to D
    if (!ok || (i128)back.time_since_epoch().count() != c2)
      ctx.viol("C18", std::string("parse-back-not-floor:") + nm,
               std::string(nm) + " count=" + S((i128)c) + " text='" + full + "' ok=" + std::to_string(ok) + " got=" + (ok ? S((i128)back.time_since_epoch().count()) : "-") + " expected=" + S(c2));
    }  // supported tick
  }
  // whole seconds or coarser: floor and failure reporting at the representation's limits
  void parse_limits() {
    if constexpr (P::den == 1) {
    i128 num = P::num;
    for (int side = 0; side < 2; ++side) {
      i128 lim = side ? (i128)std::numeric_limits<Rep>::max() : (i128)std::numeric_limits<Rep>::min();
      i128 step = num > 120 ? num / 7 + 1 : 1;
      for (i128 k = -3 * num - 3; k <= 3 * num + 3; k += step) {
        i128 sec = lim * num + k;
        if (!orc::fits64(sec)) continue;
        for (int fr = 0; fr < 2; ++fr) {
          std::string txt = cctz::detail::format("%Y-%m-%d %H:%M:%E*S %Ez", mk((int64_t)sec), cctz::detail::femtoseconds(fr ? 900000000000000LL : 0), utc);
          cctz::time_point<D> out;
          ctx.set_case("class=%s op=parse-at-limit sec=%s text=%s", nm, S(sec).c_str(), txt.c_str());
          bool ok = cctz::parse("%Y-%m-%d %H:%M:%E*S %Ez", txt, utc, &out);
          i128 expc = orc::fdiv(sec, num);
          bool fits = expc <= (i128)std::numeric_limits<Rep>::max() && expc >= (i128)std::numeric_limits<Rep>::min();
          ctx.stat("C18.evaluations");
          ctx.stat("C18.limit_parses");
          if (!fits) ctx.stat("C18.limit_parses_expected_to_fail");
          if (ok != fits || (ok && (i128)out.time_since_epoch().count() != expc))
            ctx.viol("C18", std::string(ok && !fits ? "parse-wraps-instead-of-failing:" : "parse-limit:") + nm,
                     std::string(nm) + " sec=" + S(sec) + " text='" + txt + "' ok=" + std::to_string(ok) + " fits=" + std::to_string(fits) + " got=" +
                         (ok ? S((i128)out.time_since_epoch().count()) : "-") + " expected=" + S(expc));
        }
      }
    }
    }  // den == 1
  }
  // whole seconds or coarser: parse floors arbitrary instants (not only multiples of the tick) toward the past
  void parse_floor(sup::Rng& r) {
    if constexpr (P::den == 1) {
    i128 num = P::num;
    i128 lo = (i128)std::numeric_limits<Rep>::min() * num, hi = (i128)std::numeric_limits<Rep>::max() * num + (num - 1);
    if (lo < orc::I64MIN) lo = orc::I64MIN;
    if (hi > orc::I64MAX) hi = orc::I64MAX;
    std::vector<i128> secs;
    // the first and last ticks of the whole-second range (wide representations reach them)
    for (i128 d : {(i128)0, (i128)1, (i128)2, (i128)59, (i128)60, (i128)61, (i128)3599, (i128)3600, (i128)3601, num - 1, num, num + 1, 2 * num - 1}) {
      secs.push_back(orc::I64MIN + d);
      secs.push_back(orc::I64MAX - d);
    }
    for (i128 s = -3 * num - 2; s <= 3 * num + 2; s += (num > 600 ? num / 37 + 1 : 1)) secs.push_back(s);
    for (int k = -3; k <= 3; ++k)
      for (int d : {-1, 0, 1}) secs.push_back((i128)k * num + d);
    for (int i = 0; i < 300; ++i) secs.push_back(r.range(-40000000LL, 40000000LL));
    for (int i = 0; i < 100; ++i) secs.push_back(-(i128)r.range(1, (int64_t)std::min<i128>(num * 50, 4000000000LL)));
    for (i128 sec : secs) {
      if (sec < lo || sec > hi) continue;
      for (int fr = 0; fr < 2; ++fr) {
        std::string txt = cctz::detail::format("%Y-%m-%d %H:%M:%E*S %E*z", mk((int64_t)sec), cctz::detail::femtoseconds(fr ? 999999999999999LL : 0), utc);
        cctz::time_point<D> out;
        ctx.set_case("class=%s op=parse-floor sec=%s text=%s", nm, S(sec).c_str(), txt.c_str());
        bool ok = cctz::parse("%Y-%m-%d %H:%M:%E*S %E*z", txt, utc, &out);
        i128 expc = orc::fdiv(sec, num);
        ctx.stat("C18.evaluations");
        ctx.stat("C18.coarse_parse_floor_cases");
        if (sec < 0 && orc::fmod(sec, num) != 0) ctx.stat("C18.coarse_parse_negative_non_multiples");
        if (!ok || (i128)out.time_since_epoch().count() != expc)
          ctx.viol("C18", std::string("parse-not-floor:") + nm, std::string(nm) + " sec=" + S(sec) + " text='" + txt + "' ok=" + std::to_string(ok) + " got=" +
                                                                   (ok ? S((i128)out.time_since_epoch().count()) : "-") + " expected=" + S(expc));
      }
      // the same minute written with a seconds field of 60: denotes the first second of the next minute
      {
        i128 s59 = sec - orc::fmod(sec, 60) + 59;
        if (s59 + 1 > hi || s59 < lo) continue;
        for (const char* pf : {"%Y-%m-%d %H:%M:%E*S %E*z", "%Y-%m-%d %H:%M:%S %E*z"}) {
          std::string txt = cctz::detail::format("%Y-%m-%d %H:%M:60 %E*z", mk((int64_t)s59), cctz::detail::femtoseconds(0), utc);
          cctz::time_point<D> out;
          ctx.set_case("class=%s op=parse-floor-leap-second sec=%s text=%s", nm, S(s59).c_str(), txt.c_str());
          bool ok = cctz::parse(pf, txt, utc, &out);
          i128 expc = orc::fdiv(s59 + 1, num);
          ctx.stat("C18.evaluations");
          ctx.stat("C18.coarse_parse_leap_second_cases");
          if (!ok || (i128)out.time_since_epoch().count() != expc)
            ctx.viol("C18", std::string("parse-not-floor:leap-second:") + nm, std::string(nm) + " text='" + txt + "' ok=" + std::to_string(ok) + " got=" +
                                                                                 (ok ? S((i128)out.time_since_epoch().count()) : "-") + " expected=" + S(expc));
        }
      }
    }
    } else {
      (void)r;
    }  // den == 1
  }
  void run(sup::Rng& r, long nrand) {
    i128 lo = std::numeric_limits<Rep>::min(), hi = std::numeric_limits<Rep>::max();
    i128 maxc = ((i128)INT64_MAX - 2) * P::den / P::num, minc = ((i128)INT64_MIN + 2) * P::den / P::num;
    if (hi > maxc) hi = maxc;
    if (lo < minc) lo = minc;
    // std::chrono itself multiplies the count by the period's numerator before dividing: beyond that the cast is
    // undefined whatever the library under test does
    if (P::num > 1) {
      if (hi > (i128)INT64_MAX / P::num - 1) hi = (i128)INT64_MAX / P::num - 1;
      if (lo < (i128)INT64_MIN / P::num + 1) lo = (i128)INT64_MIN / P::num + 1;
    }
    i128 per = P::den / P::num;
    if (per < 1) per = 1;
    cctz::time_zone zones[3] = {utc, cctz::fixed_time_zone(cctz::seconds(-12345)), cctz::fixed_time_zone(cctz::seconds(19800))};
    const char* zn[3] = {"UTC", "-03:25:45", "+05:30"};
    // every remainder class near zero on both sides of the epoch
    i128 step = per > 1000 ? per / 13 + 1 : 1;
    for (i128 k = -3 * per - 3; k <= 3 * per + 3; k += step)
      if (k >= lo && k <= hi) one((Rep)k, zones[0], zn[0]);
    for (i128 k = -3; k <= 3; ++k)
      for (i128 m : {(i128)-2, (i128)-1, (i128)1, (i128)2, (i128)1000}) {
        i128 c = m * per + k;
        if (c >= lo && c <= hi) one((Rep)c, zones[1], zn[1]);
      }
    for (long i = 0; i < nrand; ++i) {
      i128 c;
      switch (r.range(0, 4)) {
        case 0: c = (i128)(int64_t)r.next(); break;
        case 1: c = r.range(-1000000, 1000000); break;
        case 2: c = hi - r.range(0, 100); break;
        case 3: c = lo + r.range(0, 100); break;
        default: c = -(i128)r.range(0, 4000000000LL) * (per > 1000000 ? 1000 : 1) - 1; break;
      }
      if (c < lo || c > hi) c = lo + (i128)((unsigned __int128)r.next() % (unsigned __int128)(hi - lo + 1));
      int zi = (int)r.range(0, 2);
      one((Rep)c, zones[zi], zn[zi]);
    }
    parse_limits();
    parse_floor(r);
  }
};

int main(int argc, char** argv) {
  sup::Args a(argc, argv);
  // C08 runs with a process zone whose standard and daylight names differ (set by the check), everything else in UTC
  if (a.get("prop", "") != "C08" || getenv("TZ") == nullptr) setenv("TZ", "UTC", 1);
  std::string st = orc::selftest_calendar();
  if (!st.empty()) {
    fprintf(stderr, "oracle self-test failed: %s\n", st.c_str());
    return 2;
  }
  std::string prop = a.get("prop", "C07");
  uint64_t seed = static_cast<uint64_t>(a.getl("seed", 0));
  bool thorough = a.get("tier", "quick") == "thorough";
  sup::Options opt = sup::options_from(a);
  {
    std::ifstream f(a.get("zones"));
    std::string line;
    while (std::getline(f, line)) {
      std::vector<std::string> p;
      size_t s = 0;
      while (true) {
        size_t e = line.find('\t', s);
        p.push_back(line.substr(s, e == std::string::npos ? e : e - s));
        if (e == std::string::npos) break;
        s = e + 1;
      }
      if (p.size() < 3) continue;
      if (p[0] == "S-ancient") continue;  // kept under observation by the zone monitors only
      ZoneRec z;
      z.cls = p[0];
      z.name = p[1];
      z.path = p[2];
      z.flags = p.size() > 3 ? p[3] : "";
      g_zones.push_back(z);
    }
  }
  if (g_zones.empty() && prop != "C18") {
    fprintf(stderr, "no zones\n");
    return 2;
  }
  long total = a.getl("n", 0);
  long chunk = 4000;
  if (!total) {
    if (prop == "C07") total = thorough ? 30000000 : 2000000;
    if (prop == "C08") total = thorough ? 20000000 : 2000000;
    if (prop == "C09") total = thorough ? 30000000 : 3000000;
    if (prop == "C18") total = thorough ? 19 * 3500000L : 19 * 280000L;
  }
  long ncases = (total + chunk - 1) / chunk;
  if (prop == "C18") {
    chunk = 20000;
    ncases = (total / 19 + chunk - 1) / chunk * 19;  // 19 duration types, interleaved
  }
  return sup::supervise(ncases, opt, [&](long c, sup::Ctx& ctx) {
    sup::Rng rng(seed, static_cast<uint64_t>(c) + 31);
    if (prop == "C07") {
      c07_chunk(ctx, rng, chunk);
    } else if (prop == "C08") {
      c08_wellformed(ctx, rng, chunk / 2);
      c08_malformed(ctx, rng, chunk / 2);
      ctx.stat("C08.distinct_nontrivial", ctx.distinct_local.size());
    } else if (prop == "C09") {
      c09_model(ctx, rng, chunk * 3 / 5);
      c09_random(ctx, rng, chunk * 2 / 5);
      ctx.stat("C09.distinct_nontrivial", ctx.distinct_local.size());
    } else {
      using namespace std::chrono;
      long n = chunk;
      switch (c % 19) {
        case 0: DurMon<duration<int64_t, std::nano>>(ctx, "ns64").run(rng, n); break;
        case 1: DurMon<duration<int64_t, std::micro>>(ctx, "us64").run(rng, n); break;
        case 2: DurMon<duration<int64_t, std::milli>>(ctx, "ms64").run(rng, n); break;
        case 3: DurMon<duration<int64_t>>(ctx, "s64").run(rng, n); break;
        case 4: DurMon<duration<int32_t, std::ratio<60>>>(ctx, "min32").run(rng, n); break;
        case 5: DurMon<duration<int32_t, std::ratio<3600>>>(ctx, "h32").run(rng, n); break;
        case 6: DurMon<duration<int8_t>>(ctx, "s8").run(rng, n); break;
        case 7: DurMon<duration<int16_t>>(ctx, "s16").run(rng, n); break;
        case 8: DurMon<duration<int8_t, std::ratio<60>>>(ctx, "min8").run(rng, n); break;
        case 9: DurMon<duration<int16_t, std::ratio<60>>>(ctx, "min16").run(rng, n); break;
        case 10: DurMon<duration<int64_t, std::ratio<1, 3>>>(ctx, "third64").run(rng, n); break;
        case 11: DurMon<duration<int64_t, std::femto>>(ctx, "fs64").run(rng, n); break;
        case 12: DurMon<duration<int64_t, std::ratio<60>>>(ctx, "min64").run(rng, n); break;
        case 13: DurMon<duration<int64_t, std::ratio<3600>>>(ctx, "h64").run(rng, n); break;
        case 14: DurMon<duration<int64_t, std::ratio<7>>>(ctx, "sec7x64").run(rng, n); break;
        case 15: DurMon<duration<int64_t, std::ratio<3, 2>>>(ctx, "r3_2x64").run(rng, n); break;
        case 16: DurMon<duration<int64_t, std::ratio<2, 3>>>(ctx, "r2_3x64").run(rng, n); break;
        case 17: DurMon<duration<int64_t, std::ratio<1001, 30000>>>(ctx, "ntsc64").run(rng, n); break;
        default: DurMon<duration<int32_t>>(ctx, "s32").run(rng, n); break;
      }
      ctx.stat("C18.distinct_nontrivial", ctx.distinct_local.size());
      ctx.stat("C18.duration_type_runs");
      if (c < 19) {
        std::chrono::time_point<std::chrono::system_clock, std::chrono::milliseconds> tp{std::chrono::milliseconds(-100)};
        ctx.sample("C18", "format(\"%Y-%m-%d %H:%M:%E*S\", time_point<ms>(-100ms), utc) = " + cctz::format("%Y-%m-%d %H:%M:%E*S", tp, cctz::utc_time_zone()), 1);
      }
    }
  });
}
