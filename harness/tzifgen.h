// TZif writer + structure-aware mutators for hostile inputs (C12) and fuzz seeds.
#ifndef VERIF_TZIFGEN_H_
#define VERIF_TZIFGEN_H_

#include <cstdint>
#include <string>
#include <vector>

#include "oracle.h"
#include "posixgen.h"
#include "sup.h"

namespace tzg {

struct TypeSpec {
  int32_t off;
  uint8_t dst;
  uint8_t abbr_idx;
};
struct Block {
  std::vector<int64_t> times;
  std::vector<uint8_t> idx;
  std::vector<TypeSpec> types;
  std::string chars;
  std::vector<uint8_t> isstd, isut;
  std::string leap_bytes;  // raw leap records (normally empty)
  // declared counts; -1 = actual
  long d_timecnt = -1, d_typecnt = -1, d_charcnt = -1, d_leapcnt = -1, d_isstd = -1, d_isut = -1;
};
struct Spec {
  unsigned char version = '2';
  bool slim_v1 = true;
  Block v1, v2;
  std::string footer;
  bool footer_nl_open = true, footer_nl_close = true;
  std::string trailer;
};

inline void be32(std::string* s, int64_t v) {
  for (int i = 3; i >= 0; --i) s->push_back(static_cast<char>((static_cast<uint64_t>(v) >> (8 * i)) & 0xff));
}
inline void be64(std::string* s, int64_t v) {
  for (int i = 7; i >= 0; --i) s->push_back(static_cast<char>((static_cast<uint64_t>(v) >> (8 * i)) & 0xff));
}
inline void emit_block(std::string* s, const Block& b, int tl, unsigned char version) {
  *s += "TZif";
  s->push_back(static_cast<char>(version));
  s->append(15, '\0');
  long leap_actual = static_cast<long>(b.leap_bytes.size()) / (tl + 4);
  be32(s, b.d_isut >= 0 ? b.d_isut : static_cast<long>(b.isut.size()));
  be32(s, b.d_isstd >= 0 ? b.d_isstd : static_cast<long>(b.isstd.size()));
  be32(s, b.d_leapcnt >= 0 ? b.d_leapcnt : leap_actual);
  be32(s, b.d_timecnt >= 0 ? b.d_timecnt : static_cast<long>(b.times.size()));
  be32(s, b.d_typecnt >= 0 ? b.d_typecnt : static_cast<long>(b.types.size()));
  be32(s, b.d_charcnt >= 0 ? b.d_charcnt : static_cast<long>(b.chars.size()));
  for (int64_t t : b.times) {
    if (tl == 4)
      be32(s, t);
    else
      be64(s, t);
  }
  for (uint8_t i : b.idx) s->push_back(static_cast<char>(i));
  for (auto& t : b.types) {
    be32(s, t.off);
    s->push_back(static_cast<char>(t.dst));
    s->push_back(static_cast<char>(t.abbr_idx));
  }
  *s += b.chars;
  *s += b.leap_bytes;
  for (uint8_t v : b.isstd) s->push_back(static_cast<char>(v));
  for (uint8_t v : b.isut) s->push_back(static_cast<char>(v));
}
inline std::string emit(const Spec& sp) {
  std::string s;
  if (sp.version == 0) {
    emit_block(&s, sp.v2, 4, 0);
    return s + sp.trailer;
  }
  if (sp.slim_v1) {
    Block b;
    b.types.push_back(TypeSpec{0, 0, 0});
    b.chars = std::string(1, '\0');
    emit_block(&s, b, 4, sp.version);
  } else {
    emit_block(&s, sp.v1, 4, sp.version);
  }
  emit_block(&s, sp.v2, 8, sp.version);
  if (sp.footer_nl_open) s += "\n";
  s += sp.footer;
  if (sp.footer_nl_close) s += "\n";
  return s + sp.trailer;
}

// Build a Spec from parsed bytes (well-formed base file).
inline bool from_bytes(const std::string& bytes, Spec* sp) {
  orc::TZif z;
  if (!orc::parse_tzif(bytes, &z).empty()) return false;
  *sp = Spec();
  sp->version = static_cast<unsigned char>(z.version_byte);
  Block& b = sp->v2;
  b.times = z.times;
  b.idx = z.idx;
  for (auto& t : z.types) b.types.push_back(TypeSpec{t.off, static_cast<uint8_t>(t.dst), static_cast<uint8_t>(t.abbr_idx)});
  b.chars = z.abbr_chars;
  sp->footer = z.footer;
  sp->slim_v1 = true;
  return true;
}

static const int64_t kHostileTimes[] = {INT64_MIN, INT64_MIN + 1, INT64_MAX, INT64_MAX - 1, -((int64_t)1 << 62), (int64_t)1 << 62,
                                        -((int64_t)1 << 59), -((int64_t)1 << 59) - 1, -((int64_t)1 << 59) + 1, (int64_t)1 << 59,
                                        -((int64_t)1 << 31), ((int64_t)1 << 31) - 1, (int64_t)1 << 31, 0, -1, 1,
                                        -62135596800LL, -100000000000LL, -1000000000000000LL, 253402300800LL, 100000000000000LL};
static const long kCounts[] = {0, 1, 2, 255, 256, 257, 32768, 2147483647L};

// One structure-aware mutation of a well-formed Spec. Returns a label.
inline std::string mutate_spec(Spec* sp, sup::Rng& r) {
  Block& b = sp->v2;
  switch (r.range(0, 20)) {
    case 0: {  // declared count without resizing the body
      long* f[] = {&b.d_timecnt, &b.d_typecnt, &b.d_charcnt, &b.d_leapcnt, &b.d_isstd, &b.d_isut};
      long actual[] = {(long)b.times.size(), (long)b.types.size(), (long)b.chars.size(), 0, (long)b.isstd.size(), (long)b.isut.size()};
      int k = (int)r.range(0, 5);
      long v = r.chance(0.5) ? kCounts[r.range(0, 7)] : actual[k] + (r.chance(0.5) ? 1 : -1);
      if (r.chance(0.05)) v = -1 - r.range(0, 5);  // negative (high bit set)
      *f[k] = v < 0 ? (v & 0xffffffffL) : v;
      return "declared-count";
    }
    case 1: {  // typecnt grown for real: N types, all DST or mixed, transitions to type 0
      long n = kCounts[r.range(1, 5)] + r.range(0, 2);
      bool alldst = r.chance(0.5);
      TypeSpec base = b.types.empty() ? TypeSpec{3600, 1, 0} : b.types[0];
      b.types.clear();
      for (long i = 0; i < n; ++i)
        b.types.push_back(TypeSpec{static_cast<int32_t>(base.off + (i % 7) * 60), static_cast<uint8_t>(alldst ? 1 : (i & 1)), base.abbr_idx});
      if (b.times.empty()) {
        b.times.push_back(0);
        b.idx.push_back(0);
      }
      for (auto& i : b.idx) i = static_cast<uint8_t>(r.chance(0.5) ? 0 : r.range(0, 255));
      if (r.chance(0.7)) sp->footer.clear();
      return alldst ? "many-types-all-dst" : "many-types";
    }
    case 2: {  // type index at / beyond the boundary
      if (b.idx.empty()) return "noop";
      long n = static_cast<long>(b.types.size());
      long v[] = {n - 1, n, 255, 0, n + 1};
      b.idx[r.range(0, (int64_t)b.idx.size() - 1)] = static_cast<uint8_t>(v[r.range(0, 4)]);
      return "type-index";
    }
    case 3: {  // abbreviation index at / beyond the boundary
      if (b.types.empty()) return "noop";
      long n = static_cast<long>(b.chars.size());
      long v[] = {n - 1, n, 255, 0, n + 1};
      b.types[r.range(0, (int64_t)b.types.size() - 1)].abbr_idx = static_cast<uint8_t>(v[r.range(0, 4)]);
      return "abbr-index";
    }
    case 4: {  // hostile transition time, keeping order or not
      if (b.times.empty()) {
        b.times.push_back(0);
        b.idx.push_back(0);
      }
      size_t k = static_cast<size_t>(r.range(0, (int64_t)b.times.size() - 1));
      int64_t v = kHostileTimes[r.range(0, 20)];
      if (r.chance(0.5)) {
        // keep the list sorted: put the value at the matching end
        if (v < b.times.front()) k = 0;
        else if (v > b.times.back()) k = b.times.size() - 1;
      }
      b.times[k] = v;
      return "hostile-time";
    }
    case 5: {  // out-of-order / duplicate times
      if (b.times.size() < 2) return "noop";
      size_t k = static_cast<size_t>(r.range(1, (int64_t)b.times.size() - 1));
      b.times[k] = r.chance(0.5) ? b.times[k - 1] : static_cast<int64_t>(static_cast<uint64_t>(b.times[k - 1]) - 1);  // wraps
      return "time-order";
    }
    case 6: {  // UT offset boundary
      if (b.types.empty()) return "noop";
      int32_t v[] = {86399, -86399, 86400, -86400, 86401, -86401, INT32_MAX, INT32_MIN, 0, 1, -1};
      b.types[r.range(0, (int64_t)b.types.size() - 1)].off = v[r.range(0, 10)];
      return "utoff";
    }
    case 7: {  // version byte
      unsigned char v[] = {0, '1', '2', '3', '4', '5', '9', 0xff, ' '};
      sp->version = v[r.range(0, 8)];
      return "version";
    }
    case 8: {  // footer from the grammar / near misses
      Gen g(r);
      sp->footer = r.chance(0.5) ? g.sentence() : g.mutate(g.sentence());
      if (sp->version == 0) sp->version = '2';
      return "footer-grammar";
    }
    case 19: {  // footer whose two rule transitions are hours apart (closer than the size of the change)
      int d = (int)r.range(1, 365);
      int save_h = (int)r.range(1, 3);
      char b[128];
      snprintf(b, sizeof b, "AAA%dBBB%d,J%d/%d,J%d/%d", (int)r.range(-3, 3) + 5, (int)r.range(-3, 3) + 5 - save_h, d, (int)r.range(0, 3), d, (int)r.range(1, 6));
      sp->footer = b;
      if (sp->version == 0) sp->version = '2';
      // make the body consistent with a standard-time start so that the footer is what decides the load
      if (!sp->v2.types.empty()) {
        sp->v2.types[0].dst = 0;
      }
      return "footer-close-rules";
    }
    case 9: {  // footer framing
      switch (r.range(0, 4)) {
        case 0: sp->footer_nl_open = false; break;
        case 1: sp->footer_nl_close = false; break;
        case 2: sp->footer += std::string(static_cast<size_t>(r.range(1, 2000)), 'A'); break;
        case 3: sp->footer.insert(0, 1, '\0'); break;
        default: sp->trailer = "garbage\n"; break;
      }
      return "footer-framing";
    }
    case 10: {  // leap-second records present
      b.leap_bytes.assign(static_cast<size_t>(12 * r.range(1, 3)), '\1');
      return "leap-records";
    }
    case 11: {  // isstd / isut indicator counts
      size_t n = b.types.size();
      long pick[] = {0, (long)n, (long)n + 1, (long)n - 1, 1};
      b.isstd.assign(static_cast<size_t>(std::max(0L, pick[r.range(0, 4)])), 1);
      b.isut.assign(static_cast<size_t>(std::max(0L, pick[r.range(0, 4)])), 0);
      return "indicators";
    }
    case 12: {  // ancient / far future last transition with a rule footer
      Gen g(r);
      if (b.times.empty()) {
        b.times.push_back(0);
        b.idx.push_back(0);
      }
      int64_t v[] = {-100000000000LL, -62135596800LL * 2, -1000000000000000LL, 400000000000LL, 9000000000000000LL, -((int64_t)1 << 59) + 100};
      int64_t t = v[r.range(0, 5)];
      b.times.assign(1, t);
      b.idx.assign(1, static_cast<uint8_t>(b.types.size() > 1 ? 1 : 0));
      return "far-seam";
    }
    case 13: {  // abbreviation characters: no terminator / all NUL / high bytes
      if (b.chars.empty()) return "noop";
      switch (r.range(0, 2)) {
        case 0: b.chars.back() = 'X'; break;
        case 1: b.chars.assign(b.chars.size(), '\0'); break;
        default: b.chars[0] = '\xff'; break;
      }
      return "abbr-chars";
    }
    case 14: {  // zero types / zero everything
      b.types.clear();
      if (r.chance(0.5)) {
        b.times.clear();
        b.idx.clear();
      }
      return "no-types";
    }
    case 15: {  // fat v1 block that disagrees with v2
      sp->slim_v1 = false;
      sp->v1 = b;
      sp->v1.times.clear();
      sp->v1.idx.clear();
      for (size_t i = 0; i < b.times.size(); ++i)
        if (b.times[i] >= INT32_MIN && b.times[i] <= INT32_MAX) {
          sp->v1.times.push_back(b.times[i]);
          sp->v1.idx.push_back(b.idx[i]);
        }
      if (r.chance(0.5)) sp->v1.d_timecnt = kCounts[r.range(0, 7)];
      return "fat-v1";
    }
    case 16: {  // many transitions
      long n = r.range(1000, 6000);
      b.times.clear();
      b.idx.clear();
      int64_t t = -2000000000LL;
      for (long i = 0; i < n; ++i) {
        t += r.range(1, 2000000);
        b.times.push_back(t);
        b.idx.push_back(static_cast<uint8_t>(r.range(0, std::max<int64_t>(0, (int64_t)b.types.size() - 1))));
      }
      return "many-transitions";
    }
    case 17: {  // transitions closer than their offset jumps (civil order violated)
      if (b.types.size() < 2 || b.times.size() < 2) return "noop";
      size_t k = static_cast<size_t>(r.range(1, (int64_t)b.times.size() - 1));
      b.times[k] = static_cast<int64_t>(static_cast<uint64_t>(b.times[k - 1]) + static_cast<uint64_t>(r.range(1, 3600)));  // wraps
      return "crossing-transitions";
    }
    case 18: {  // dst flag values other than 0/1, type 0 DST and referenced
      for (auto& t : b.types) t.dst = static_cast<uint8_t>(r.chance(0.5) ? r.range(0, 255) : t.dst);
      if (!b.types.empty()) b.types[0].dst = 1;
      if (!b.idx.empty()) b.idx[r.range(0, (int64_t)b.idx.size() - 1)] = 0;
      return "dst-flags";
    }
    default: {  // two structural mutations
      std::string a = mutate_spec(sp, r);
      return a + "+" + mutate_spec(sp, r);
    }
  }
}

// Raw byte-level mutation. `other` is a second well-formed file for splices.
inline std::string mutate_bytes(std::string* s, const std::string& other, sup::Rng& r) {
  if (s->empty()) return "noop";
  orc::TZif z;
  bool parsed = orc::parse_tzif(*s, &z).empty();
  switch (r.range(0, 7)) {
    case 0: {
      int n = (int)r.range(1, 3);
      for (int i = 0; i < n; ++i) (*s)[static_cast<size_t>(r.range(0, (int64_t)s->size() - 1))] ^= static_cast<char>(1 << r.range(0, 7));
      return "bit-flip";
    }
    case 1: {
      static const unsigned char v[] = {0x00, 0x7f, 0x80, 0xff, 0x01, 0x0a};
      size_t pos = static_cast<size_t>(r.range(0, (int64_t)s->size() - 1));
      if (parsed && r.chance(0.6)) {
        // aim at the headers
        size_t h = r.chance(0.5) ? z.v1_hdr_off : z.v2_hdr_off;
        pos = h + static_cast<size_t>(r.range(4, 43));
        if (pos >= s->size()) pos = s->size() - 1;
      }
      (*s)[pos] = static_cast<char>(v[r.range(0, 5)]);
      return "byte-set";
    }
    case 2: {  // truncate at a structural boundary or anywhere
      size_t cut = static_cast<size_t>(r.range(0, (int64_t)s->size() - 1));
      if (parsed && r.chance(0.6)) {
        size_t b[] = {z.v1_hdr_off + 44, z.v2_hdr_off, z.v2_hdr_off + 44, z.v2_data_off, z.footer_off, z.footer_off + 1, s->size() - 1,
                      z.v2_hdr_off + 20, 4, 5, 20, 43};
        cut = b[r.range(0, 11)];
        if (cut > s->size()) cut = s->size();
      }
      s->resize(cut);
      return "truncate";
    }
    case 3: {  // splice
      if (other.empty()) return "noop";
      size_t a = static_cast<size_t>(r.range(0, (int64_t)s->size()));
      size_t b = static_cast<size_t>(r.range(0, (int64_t)other.size()));
      *s = s->substr(0, a) + other.substr(b);
      return "splice";
    }
    case 4: {  // 8-byte time edit in place
      if (!parsed || z.times.empty()) return "noop";
      size_t k = static_cast<size_t>(r.range(0, (int64_t)z.times.size() - 1));
      size_t pos = z.v2_data_off + 8 * k;
      if (z.version_byte == 0) pos = z.v2_data_off + 4 * k;
      int64_t v = kHostileTimes[r.range(0, 20)];
      int tl = z.version_byte == 0 ? 4 : 8;
      for (int i = 0; i < tl && pos + i < s->size(); ++i) (*s)[pos + i] = static_cast<char>((static_cast<uint64_t>(v) >> (8 * (tl - 1 - i))) & 0xff);
      return "time-edit";
    }
    case 5: {  // insert / delete a run of bytes
      size_t pos = static_cast<size_t>(r.range(0, (int64_t)s->size() - 1));
      if (r.chance(0.5))
        s->insert(pos, static_cast<size_t>(r.range(1, 16)), static_cast<char>(r.range(0, 255)));
      else
        s->erase(pos, static_cast<size_t>(r.range(1, 16)));
      return "insert-delete";
    }
    case 6: {  // header count edit in place (no resize)
      if (!parsed) return "noop";
      size_t h = (z.version_byte != 0 && r.chance(0.7)) ? z.v2_hdr_off : z.v1_hdr_off;
      size_t pos = h + 20 + 4 * static_cast<size_t>(r.range(0, 5));
      int64_t v = kCounts[r.range(0, 7)];
      if (r.chance(0.1)) v = 0xffffffffLL;
      for (int i = 0; i < 4 && pos + i < s->size(); ++i) (*s)[pos + i] = static_cast<char>((static_cast<uint64_t>(v) >> (8 * (3 - i))) & 0xff);
      return "count-edit";
    }
    default: {
      std::string a = mutate_bytes(s, other, r);
      return a + "+" + mutate_bytes(s, other, r);
    }
  }
}

// How many bytes cctz will allocate for the data block it reads (header-declared), or -1 if the
// header chain cannot be followed. Used only to honour the "given enough memory" proviso.
inline int64_t declared_alloc(const std::string& s) {
  auto rd = [&](size_t off, int64_t c[6], unsigned char* ver) -> bool {
    if (off + 44 > s.size()) return false;
    if (memcmp(s.data() + off, "TZif", 4) != 0) return false;
    *ver = static_cast<unsigned char>(s[off + 4]);
    for (int i = 0; i < 6; ++i) {
      c[i] = orc::be_i(reinterpret_cast<const unsigned char*>(s.data()) + off + 20 + 4 * i, 4);
      if (c[i] < 0) return false;
    }
    return true;
  };
  auto dlen = [](const int64_t c[6], int tl) -> int64_t {
    // order in file: isut, isstd, leap, time, type, char
    return (tl + 1) * c[3] + 6 * c[4] + c[5] + (tl + 4) * c[2] + c[1] + c[0];
  };
  int64_t c[6];
  unsigned char ver;
  if (!rd(0, c, &ver)) return -1;
  if (ver == 0) return dlen(c, 4);
  int64_t skip = dlen(c, 4);
  if (skip > static_cast<int64_t>(s.size())) return -1;  // Skip() fails on our source
  if (!rd(44 + static_cast<size_t>(skip), c, &ver)) return -1;
  return dlen(c, 8);
}

}  // namespace tzg

#endif  // VERIF_TZIFGEN_H_
