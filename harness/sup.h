// Supervisor shared by all monitors: runs `ncases` cases over forked workers,
// attributes every crash / sanitizer abort / hang to the case that was running,
// restarts the worker after it, and collects result lines.
//
// Result protocol (tab separated, one record per line, written to <out>/w<i>.res
// by workers and to <out>/sup.res by the supervisor):
//   VIOL   <prop> <key> <detail>          oracle mismatch reported by a monitor
//   CRASH  <case> <how> <stderr-file> <case-description>
//   HANG   <case> <seconds> <case-description>
//   STAT   <name> <delta>                 counters (summed by the driver)
//   DIST   <name> <hash64>                member of a distinct-set (deduped by driver)
//   SAMPLE <prop> <text>                  literal sample case
//   NOTE   <text>
#ifndef VERIF_SUP_H_
#define VERIF_SUP_H_

#include <fcntl.h>
#include <signal.h>
#include <sys/mman.h>
#include <sys/stat.h>
#include <sys/time.h>
#include <sys/types.h>
#include <sys/wait.h>
#include <unistd.h>

#include <cstdarg>
#include <cstdint>
#include <cstdio>
#include <cstdlib>
#include <cstring>
#include <functional>
#include <map>
#include <set>
#include <string>
#include <unordered_set>
#include <vector>

namespace sup {

struct Slot {
  volatile long cur_case;   // case index being run, -1 = none
  volatile long done_upto;  // number of slice cases completed
  char desc[1024];          // description of the running case (for replay)
};

inline std::string esc(const std::string& s) {
  std::string o;
  for (unsigned char c : s) {
    if (c == '\t' || c == '\n' || c == '\r' || c == '\\' || c < 0x20 || c >= 0x7f) {
      char b[8];
      snprintf(b, sizeof b, "\\x%02x", c);
      o += b;
    } else {
      o += static_cast<char>(c);
    }
  }
  return o;
}

inline std::string hexs(const std::string& s) {
  static const char* d = "0123456789abcdef";
  std::string o;
  for (unsigned char c : s) {
    o += d[c >> 4];
    o += d[c & 15];
  }
  return o;
}

inline uint64_t fnv(const void* p, size_t n, uint64_t h = 1469598103934665603ULL) {
  const unsigned char* b = static_cast<const unsigned char*>(p);
  for (size_t i = 0; i < n; ++i) {
    h ^= b[i];
    h *= 1099511628211ULL;
  }
  return h;
}
inline uint64_t fnvs(const std::string& s, uint64_t h = 1469598103934665603ULL) {
  return fnv(s.data(), s.size(), h);
}
inline uint64_t mix(uint64_t h, uint64_t v) { return fnv(&v, sizeof v, h); }

class Ctx {
 public:
  FILE* out = nullptr;
  Slot* slot = nullptr;
  int worker = 0;
  std::map<std::string, uint64_t> stats;
  std::map<std::string, std::set<uint64_t>> dist;
  std::map<std::string, int> viol_count;  // per key, to cap output
  std::map<std::string, int> sample_count;
  std::unordered_set<uint64_t> distinct_local;  // per-case scratch set, cleared before every case

  void set_case(const char* fmt, ...) __attribute__((format(printf, 2, 3))) {
    va_list ap;
    va_start(ap, fmt);
    vsnprintf(slot->desc, sizeof slot->desc, fmt, ap);
    va_end(ap);
  }
  void stat(const std::string& name, uint64_t add = 1) { stats[name] += add; }
  // record membership in a distinct set; flushed as hashes
  void distinct(const std::string& name, uint64_t h) {
    auto& s = dist[name];
    if (s.insert(h).second) pending_dist_.push_back({name, h});
  }
  void viol(const std::string& prop, const std::string& key, const std::string& detail) {
    int& n = viol_count[prop + "/" + key];
    stats["viol_total"] += 1;
    if (++n > 5) return;  // cap per key per worker
    fprintf(out, "VIOL\t%s\t%s\t%s\n", prop.c_str(), esc(key).c_str(), esc(detail).c_str());
    fflush(out);
  }
  void sample(const std::string& prop, const std::string& text, int cap = 3) {
    int& n = sample_count[prop];
    if (++n > cap) return;
    fprintf(out, "SAMPLE\t%s\t%s\n", prop.c_str(), esc(text).c_str());
  }
  void note(const std::string& text) { fprintf(out, "NOTE\t%s\n", esc(text).c_str()); }
  void flush() {
    for (auto& kv : stats) {
      if (kv.second) fprintf(out, "STAT\t%s\t%llu\n", kv.first.c_str(), (unsigned long long)kv.second);
      kv.second = 0;
    }
    for (auto& p : pending_dist_)
      fprintf(out, "DIST\t%s\t%016llx\n", p.first.c_str(), (unsigned long long)p.second);
    pending_dist_.clear();
    fflush(out);
  }

 private:
  std::vector<std::pair<std::string, uint64_t>> pending_dist_;
};

struct Options {
  int workers = 16;
  int case_timeout_s = 120;  // per-case watchdog (wall clock); firing = HANG (inconclusive unless repeated)
  std::string outdir;        // must exist
  long only_case = -1;       // replay a single case
  int max_crashes = 100000;  // stop restarting after this many
};

typedef std::function<void(long, Ctx&)> CaseFn;

inline void worker_main(int w, int nworkers, long ncases, long start_k, Slot* slot,
                        const Options& opt, const CaseFn& fn) {
  Ctx ctx;
  ctx.worker = w;
  ctx.slot = slot;
  std::string res = opt.outdir + "/w" + std::to_string(w) + ".res";
  ctx.out = fopen(res.c_str(), "a");
  if (!ctx.out) _exit(97);
  std::string err = opt.outdir + "/w" + std::to_string(w) + ".err";
  int efd = open(err.c_str(), O_WRONLY | O_CREAT | O_TRUNC, 0644);
  if (efd >= 0) {
    dup2(efd, 2);
    close(efd);
  }
  long k = start_k;
  for (long c = w + k * nworkers; c < ncases; c = w + (++k) * nworkers) {
    if (opt.only_case >= 0 && c != opt.only_case) {
      slot->done_upto = k + 1;
      continue;
    }
    slot->done_upto = k;
    slot->cur_case = c;
    slot->desc[0] = 0;
    ctx.distinct_local.clear();
    fn(c, ctx);
    ctx.stat("cases_run");
    ctx.flush();
    slot->cur_case = -1;
    slot->done_upto = k + 1;
  }
  ctx.flush();
  fclose(ctx.out);
  _exit(0);
}

// Returns 0 on success (all cases ran, crashes recorded in sup.res), 2 on harness failure.
inline int supervise(long ncases, const Options& opt_in, const CaseFn& fn) {
  Options opt = opt_in;
  if (opt.workers < 1) opt.workers = 1;
  if (opt.workers > ncases && ncases > 0) opt.workers = static_cast<int>(ncases);
  if (opt.only_case >= 0) opt.workers = 1;
  int nw = opt.workers;
  Slot* slots = static_cast<Slot*>(mmap(nullptr, sizeof(Slot) * nw, PROT_READ | PROT_WRITE,
                                        MAP_SHARED | MAP_ANONYMOUS, -1, 0));
  if (slots == MAP_FAILED) return 2;
  memset(slots, 0, sizeof(Slot) * nw);
  std::string supres = opt.outdir + "/sup.res";
  FILE* sf = fopen(supres.c_str(), "a");
  if (!sf) return 2;
  std::vector<pid_t> pids(nw, 0);
  std::vector<double> case_started(nw, 0);
  std::vector<long> last_seen_case(nw, -2);
  int crashes = 0;
  int crash_seq = 0;
  auto now = []() {
    struct timeval tv;
    gettimeofday(&tv, nullptr);
    return tv.tv_sec + tv.tv_usec * 1e-6;
  };
  auto spawn = [&](int w, long start_k) {
    slots[w].cur_case = -1;
    fflush(nullptr);
    pid_t p = fork();
    if (p == 0) {
      worker_main(w, nw, ncases, start_k, &slots[w], opt, fn);
    }
    pids[w] = p;
    case_started[w] = now();
    last_seen_case[w] = -2;
  };
  for (int w = 0; w < nw; ++w) spawn(w, 0);
  int live = nw;
  while (live > 0) {
    int status = 0;
    pid_t p = waitpid(-1, &status, WNOHANG);
    if (p > 0) {
      int w = -1;
      for (int i = 0; i < nw; ++i)
        if (pids[i] == p) w = i;
      if (w < 0) continue;
      bool ok = WIFEXITED(status) && WEXITSTATUS(status) == 0;
      if (ok) {
        pids[w] = 0;
        --live;
        continue;
      }
      long c = slots[w].cur_case;
      long k = slots[w].done_upto;
      char how[64];
      if (WIFSIGNALED(status))
        snprintf(how, sizeof how, "signal%d", WTERMSIG(status));
      else
        snprintf(how, sizeof how, "exit%d", WEXITSTATUS(status));
      std::string errsrc = opt.outdir + "/w" + std::to_string(w) + ".err";
      std::string errdst = opt.outdir + "/crash" + std::to_string(crash_seq++) + ".err";
      rename(errsrc.c_str(), errdst.c_str());
      fprintf(sf, "CRASH\t%ld\t%s\t%s\t%s\n", c, how, errdst.c_str(),
              esc(std::string(slots[w].desc)).c_str());
      fflush(sf);
      ++crashes;
      if (c < 0 || crashes > opt.max_crashes) {
        // crashed outside a case (setup) or too many: give up on this worker's slice
        fprintf(sf, "NOTE\tworker %d abandoned (case=%ld crashes=%d)\n", w, c, crashes);
        fprintf(sf, "STAT\tabandoned_workers\t1\n");
        pids[w] = 0;
        --live;
        continue;
      }
      spawn(w, k + 1);  // resume after the crashed case
      continue;
    }
    // watchdog
    double t = now();
    for (int w = 0; w < nw; ++w) {
      if (!pids[w]) continue;
      long c = slots[w].cur_case;
      if (c != last_seen_case[w]) {
        last_seen_case[w] = c;
        case_started[w] = t;
      } else if (c >= 0 && t - case_started[w] > opt.case_timeout_s) {
        fprintf(sf, "HANG\t%ld\t%d\t%s\n", c, opt.case_timeout_s,
                esc(std::string(slots[w].desc)).c_str());
        fflush(sf);
        kill(pids[w], SIGKILL);
        int st;
        waitpid(pids[w], &st, 0);
        long k = slots[w].done_upto;
        ++crashes;
        if (crashes > opt.max_crashes) {
          fprintf(sf, "STAT\tabandoned_workers\t1\n");
          pids[w] = 0;
          --live;
        } else {
          spawn(w, k + 1);
        }
      }
    }
    usleep(20000);
  }
  fclose(sf);
  munmap(slots, sizeof(Slot) * nw);
  return 0;
}

// ---- tiny argv helper -------------------------------------------------------
struct Args {
  std::map<std::string, std::string> kv;
  Args(int argc, char** argv) {
    for (int i = 1; i < argc; ++i) {
      std::string a = argv[i];
      if (a.rfind("--", 0) == 0) {
        std::string k = a.substr(2), v = "1";
        size_t eq = k.find('=');
        if (eq != std::string::npos) {
          v = k.substr(eq + 1);
          k = k.substr(0, eq);
        } else if (i + 1 < argc && std::string(argv[i + 1]).rfind("--", 0) != 0) {
          v = argv[++i];
        }
        kv[k] = v;
      }
    }
  }
  std::string get(const std::string& k, const std::string& d = "") const {
    auto it = kv.find(k);
    return it == kv.end() ? d : it->second;
  }
  long getl(const std::string& k, long d) const {
    auto it = kv.find(k);
    return it == kv.end() ? d : atol(it->second.c_str());
  }
  bool has(const std::string& k) const { return kv.count(k) != 0; }
};

inline Options options_from(const Args& a) {
  Options o;
  o.workers = static_cast<int>(a.getl("workers", 16));
  o.case_timeout_s = static_cast<int>(a.getl("case-timeout", 120));
  o.outdir = a.get("out", ".");
  o.only_case = a.getl("only-case", -1);
  return o;
}

// splitmix64 / xoshiro-ish PRNG, deterministic from (seed, stream)
struct Rng {
  uint64_t s;
  explicit Rng(uint64_t seed, uint64_t stream = 0) : s(seed * 0x9E3779B97F4A7C15ULL + stream * 0xBF58476D1CE4E5B9ULL + 0x94D049BB133111EBULL) { next(); }
  uint64_t next() {
    uint64_t z = (s += 0x9E3779B97F4A7C15ULL);
    z = (z ^ (z >> 30)) * 0xBF58476D1CE4E5B9ULL;
    z = (z ^ (z >> 27)) * 0x94D049BB133111EBULL;
    return z ^ (z >> 31);
  }
  // uniform in [lo, hi] inclusive
  int64_t range(int64_t lo, int64_t hi) {
    uint64_t span = static_cast<uint64_t>(hi) - static_cast<uint64_t>(lo) + 1;
    if (span == 0) return static_cast<int64_t>(next());
    return static_cast<int64_t>(static_cast<uint64_t>(lo) + next() % span);
  }
  bool chance(double p) { return (next() >> 11) * (1.0 / 9007199254740992.0) < p; }
  template <typename T>
  const T& pick(const std::vector<T>& v) { return v[next() % v.size()]; }
};

}  // namespace sup

#endif  // VERIF_SUP_H_
