// C19 probe: runs in a child process with a chosen environment; prints what name resolution did.
//   envprobe NAME...        one line per name:  L <hex(name)> <ok> <hex(tz.name())> <is_utc> <digest>
//                           then:               T <hex(local.name())> <is_utc> <digest>   (local_time_zone())
//                                               D <default-constructed == utc>
// No factory is linked in: the library's default (file) data source is under test.
#include <cinttypes>
#include <cstdio>
#include <cstdlib>
#include <sstream>
#include <string>

#include "cctz/time_zone.h"

static std::string hex(const std::string& s) {
  static const char* d = "0123456789abcdef";
  std::string o = "x";
  for (unsigned char c : s) {
    o += d[c >> 4];
    o += d[c & 15];
  }
  return o;
}
static std::string digest(const cctz::time_zone& tz) {
  std::ostringstream o;
  uint64_t h = 1469598103934665603ULL;
  auto add = [&](const std::string& s) {
    for (unsigned char c : s) {
      h ^= c;
      h *= 1099511628211ULL;
    }
    h ^= 0xff;
    h *= 1099511628211ULL;
  };
  add(tz.description());
  for (int64_t t : {(int64_t)0, (int64_t)1700000000, (int64_t)1720000000, (int64_t)-1500000000, (int64_t)4102444800LL, (int64_t)32503680000LL, (int64_t)951782400,
                    (int64_t)-5000000000LL}) {
    add(cctz::format("%Y-%m-%dT%H:%M:%S %E*z %Z", cctz::time_point<cctz::seconds>(cctz::seconds(t)), tz));
  }
  cctz::time_zone::civil_transition tr;
  auto tp = cctz::time_point<cctz::seconds>(cctz::seconds(1000000000));
  for (int i = 0; i < 5 && tz.next_transition(tp, &tr); ++i) {
    std::ostringstream s;
    s << tr.from << ">" << tr.to;
    add(s.str());
    tp = tz.lookup(tr.to).trans;
  }
  char b[32];
  snprintf(b, sizeof b, "%016" PRIx64, h);
  return b;
}
static std::string unhex(const std::string& h) {
  std::string o;
  for (size_t i = 1; i + 1 < h.size(); i += 2) o += static_cast<char>(std::stoi(h.substr(i, 2), nullptr, 16));
  return o;
}
// --seq FILE: one step per line, executed in order in this one process:
//   E <hex var> <hex value>   setenv        U <hex var>   unsetenv
//   L <hex name>              load_time_zone (prints an L line)      T   local_time_zone() (prints a T line)
static int run_seq(const char* file) {
  const cctz::time_zone utc = cctz::utc_time_zone();
  FILE* f = fopen(file, "r");
  if (!f) return 3;
  char op[8], a[8192], b[8192];
  char line[20000];
  while (fgets(line, sizeof line, f)) {
    a[0] = b[0] = 0;
    if (sscanf(line, "%7s %8191s %8191s", op, a, b) < 1) continue;
    if (op[0] == 'E') {
      setenv(unhex(a).c_str(), unhex(b).c_str(), 1);
    } else if (op[0] == 'U') {
      unsetenv(unhex(a).c_str());
    } else if (op[0] == 'L') {
      std::string name = unhex(a);
      cctz::time_zone tz = cctz::fixed_time_zone(cctz::seconds(11));
      bool ok = cctz::load_time_zone(name, &tz);
      printf("L %s %d %s %d %s\n", hex(name).c_str(), ok ? 1 : 0, hex(tz.name()).c_str(), tz == utc ? 1 : 0, digest(tz).c_str());
    } else if (op[0] == 'T') {
      cctz::time_zone l = cctz::local_time_zone();
      printf("T %s %d %s\n", hex(l.name()).c_str(), l == utc ? 1 : 0, digest(l).c_str());
    }
  }
  fclose(f);
  return 0;
}
int main(int argc, char** argv) {
  if (argc == 3 && std::string(argv[1]) == "--seq") return run_seq(argv[2]);
  const cctz::time_zone utc = cctz::utc_time_zone();
  for (int i = 1; i < argc; ++i) {
    std::string name = argv[i];
    if (name == "--empty") name = "";
    cctz::time_zone tz = cctz::fixed_time_zone(cctz::seconds(11));  // must be overwritten
    bool ok = cctz::load_time_zone(name, &tz);
    printf("L %s %d %s %d %s\n", hex(name).c_str(), ok ? 1 : 0, hex(tz.name()).c_str(), tz == utc ? 1 : 0, digest(tz).c_str());
  }
  cctz::time_zone l = cctz::local_time_zone();
  printf("T %s %d %s\n", hex(l.name()).c_str(), l == utc ? 1 : 0, digest(l).c_str());
  cctz::time_zone d;
  printf("D %d %s\n", d == utc ? 1 : 0, hex(d.name()).c_str());
  return 0;
}
