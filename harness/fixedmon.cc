// C15: fixed-offset zones and their names. Exhaustive over offsets [-90000, 90000];
// name mutations against the shape predicate. The zone-data factory is replaced by one that
// counts calls: a fixed-offset name must never reach it.
//   fixedmon --seed N --tier quick|thorough --out DIR
#define VERIF_DEFINE_FACTORY
#include <cinttypes>
#include <sstream>

#include "cctz/time_zone.h"
#include <thread>

#include "oracle.h"
#include "sup.h"
#include "time_zone_fixed.h"
#include "zsrc.h"

using orc::i128;
typedef cctz::time_point<cctz::seconds> tp_t;
static inline tp_t mk(int64_t t) { return tp_t(cctz::seconds(t)); }

static long exp_offset(long o) { return (o != 0 && o >= -86400 && o <= 86400) ? o : 0; }
static std::string exp_name(long o) {
  long e = exp_offset(o);
  if (e == 0) return "UTC";
  char b[64];
  long a = e < 0 ? -e : e;
  snprintf(b, sizeof b, "Fixed/UTC%c%02ld:%02ld:%02ld", e < 0 ? '-' : '+', a / 3600, (a / 60) % 60, a % 60);
  return b;
}
static std::string exp_abbr(long o) {
  long e = exp_offset(o);
  if (e == 0) return "UTC";
  char b[64];
  long a = e < 0 ? -e : e;
  if (a % 60)
    snprintf(b, sizeof b, "%c%02ld%02ld%02ld", e < 0 ? '-' : '+', a / 3600, (a / 60) % 60, a % 60);
  else if ((a / 60) % 60)
    snprintf(b, sizeof b, "%c%02ld%02ld", e < 0 ? '-' : '+', a / 3600, (a / 60) % 60);
  else
    snprintf(b, sizeof b, "%c%02ld", e < 0 ? '-' : '+', a / 3600);
  return b;
}
// shape predicate of the statement: 'UTC', 'UTC0', or Fixed/UTC[+-]dd:dd:dd spelling <= 24h
static bool shape(const std::string& s, long* off) {
  if (s == "UTC" || s == "UTC0") {
    *off = 0;
    return true;
  }
  const std::string pre = "Fixed/UTC";
  if (s.size() != pre.size() + 9) return false;
  if (s.compare(0, pre.size(), pre) != 0) return false;
  const char* p = s.data() + pre.size();
  if (p[0] != '+' && p[0] != '-') return false;
  if (p[3] != ':' || p[6] != ':') return false;
  for (int i : {1, 2, 4, 5, 7, 8})
    if (p[i] < '0' || p[i] > '9') return false;
  long h = (p[1] - '0') * 10 + (p[2] - '0'), m = (p[4] - '0') * 10 + (p[5] - '0'), sec = (p[7] - '0') * 10 + (p[8] - '0');
  long tot = h * 3600 + m * 60 + sec;
  if (tot > 86400) return false;
  *off = p[0] == '-' ? -tot : tot;
  return true;
}

static const int64_t kInstants[] = {0, INT64_MIN, INT64_MAX, -2208988800LL, 1420070400LL, 1735689599LL, 1735689600LL,
                                    253402300800LL, -62135596800LL, (int64_t)1 << 59, -((int64_t)1 << 59), 951782400LL};

struct Mon {
  sup::Ctx& ctx;
  bool thorough;
  explicit Mon(sup::Ctx& c, bool th) : ctx(c), thorough(th) {}

  void check_zone_at(const cctz::time_zone& tz, long o, const char* how) {
    long e = exp_offset(o);
    std::string ab = exp_abbr(o);
    int n = thorough ? 12 : 4;
    for (int i = 0; i < n; ++i) {
      int64_t t = kInstants[(i * 5 + (o & 7)) % 12];
      ctx.set_case("class=offset op=%s offset=%ld lookup(%" PRId64 ")", how, o, t);
      auto al = tz.lookup(mk(t));
      ctx.stat("C15.evaluations");
      orc::Civ ec = orc::civ_from_secs((i128)t + e);
      orc::Civ gc{(i128)al.cs.year(), al.cs.month(), al.cs.day(), al.cs.hour(), al.cs.minute(), al.cs.second()};
      if (al.offset != e || al.is_dst || ab != al.abbr || gc != ec) {
        std::ostringstream d;
        d << how << " offset=" << o << " t=" << t << " expected off=" << e << " abbr=" << ab << " cs=" << orc::str(ec)
          << " got off=" << al.offset << " dst=" << al.is_dst << " abbr=" << al.abbr << " cs=" << orc::str(gc);
        ctx.viol("C15", std::string("lookup:") + how, d.str());
      }
    }
  }

  void offset_case(long o, bool far = false) {
    long e = exp_offset(o);
    std::string name = exp_name(o);
    ctx.set_case("class=offset op=fixed_time_zone offset=%ld", o);
    long before = zsrc::st().factory_calls.load();
    cctz::time_zone tz = cctz::fixed_time_zone(cctz::seconds(o));
    ctx.stat("C15.evaluations");
    if (tz.name() != name) ctx.viol("C15", "name", "offset=" + std::to_string(o) + " expected " + name + " got " + tz.name());
    check_zone_at(tz, o, "fixed_time_zone");
    if (e == 0 && !(tz == cctz::utc_time_zone()))
      ctx.viol("C15", "zero-or-beyond-24h-not-utc", "offset=" + std::to_string(o));
    // helpers
    ctx.set_case("class=offset op=FixedOffsetToName/FromName offset=%ld", o);
    std::string gn = cctz::FixedOffsetToName(cctz::seconds(o));
    cctz::seconds back(12345);
    bool ok = cctz::FixedOffsetFromName(gn, &back);
    ctx.stat("C15.evaluations", 3);
    if (gn != name) ctx.viol("C15", "FixedOffsetToName", "offset=" + std::to_string(o) + " expected " + name + " got " + gn);
    if (!ok || back.count() != e)
      ctx.viol("C15", "name-roundtrip", "offset=" + std::to_string(o) + " name=" + gn + " -> ok=" + std::to_string(ok) + " off=" + std::to_string(back.count()));
    std::string ga = cctz::FixedOffsetToAbbr(cctz::seconds(o));
    if (ga != exp_abbr(o)) ctx.viol("C15", "FixedOffsetToAbbr", "offset=" + std::to_string(o) + " expected " + exp_abbr(o) + " got " + ga);
    // the name loads without any zone data to an equal zone
    ctx.set_case("class=offset op=load_time_zone(%s)", name.c_str());
    cctz::time_zone tz2;
    bool lok = cctz::load_time_zone(name, &tz2);
    ctx.stat("C15.evaluations");
    if (!lok || !(tz2 == tz)) ctx.viol("C15", "name-load", "offset=" + std::to_string(o) + " name=" + name + " ok=" + std::to_string(lok));
    if (lok) check_zone_at(tz2, o, "load_time_zone");
    long after = zsrc::st().factory_calls.load();
    if (after != before) {
      ctx.viol("C15", "factory-consulted", "offset=" + std::to_string(o) + " name=" + name + " factory calls=" + std::to_string(after - before));
    }
    ctx.stat(far ? "C15.offsets_far" : "C15.offsets");
    if (e != 0) ctx.stat("C15.distinct_nontrivial");
  }

  void name_case(const std::string& s, const char* how) {
    long eo = 0;
    bool es = shape(s, &eo);
    ctx.set_case("class=name-%s op=FixedOffsetFromName hex=%s", how, sup::hexs(s).c_str());
    cctz::seconds got(777777);
    bool g = cctz::FixedOffsetFromName(s, &got);
    ctx.stat("C15.evaluations");
    ctx.stat("C15.name_mutations");
    ctx.stat("C15.distinct_nontrivial");
    if (es) ctx.stat("C15.name_mutations_in_shape");
    if (g != es) {
      ctx.viol("C15", std::string("shape-") + (g ? "accepted-outside-shape" : "rejected-in-shape") + ":" + how,
               "name=" + s + " hex=" + sup::hexs(s) + " got offset " + std::to_string(got.count()));
      return;
    }
    if (g && got.count() != eo)
      ctx.viol("C15", std::string("shape-wrong-offset:") + how, "name=" + s + " expected " + std::to_string(eo) + " got " + std::to_string(got.count()));
    // through load_time_zone
    if (s.find('\0') != std::string::npos) return;  // not a usable file name either way
    long before = zsrc::st().factory_calls.load();
    cctz::time_zone tz;
    ctx.set_case("class=name-%s op=load_time_zone hex=%s", how, sup::hexs(s).c_str());
    bool ok = cctz::load_time_zone(s, &tz);
    long calls = zsrc::st().factory_calls.load() - before;
    ctx.stat("C15.evaluations");
    if (es) {
      if (!ok || calls != 0) ctx.viol("C15", "shape-load", "name=" + s + " ok=" + std::to_string(ok) + " factory calls=" + std::to_string(calls));
      if (ok) check_zone_at(tz, eo, "load-mutated-name");
      if (ok && eo != 0 && s != exp_name(eo)) {
        // another accepted spelling of an offset (a minutes or seconds field above 59) was loaded, perhaps before the
        // canonical one: the zone it yields carries the name it was asked for, and the canonical zone is unaffected
        ctx.stat("C15.evaluations", 3);
        ctx.stat("C15.non_canonical_spellings_loaded");
        if (tz.name() != s) ctx.viol("C15", "non-canonical-spelling:name", "loaded " + s + " reports name " + tz.name());
        cctz::time_zone fz = cctz::fixed_time_zone(cctz::seconds(eo));
        if (fz.name() != exp_name(eo))
          ctx.viol("C15", "non-canonical-spelling:canonical-zone-renamed", "after loading " + s + ", fixed_time_zone(" + std::to_string(eo) + ").name() is " + fz.name());
        cctz::time_zone cz;
        if (!cctz::load_time_zone(exp_name(eo), &cz) || cz.name() != exp_name(eo) || !(cz == fz))
          ctx.viol("C15", "non-canonical-spelling:canonical-load", "after loading " + s + ", loading " + exp_name(eo) + " gives name " + cz.name());
        check_zone_at(fz, eo, "fixed_time_zone-after-other-spelling");
      }
    } else {
      // not a fixed name: resolved as zone data, which does not exist under these names
      if (ok || !(tz == cctz::utc_time_zone()))
        ctx.viol("C15", "non-shape-loaded", "name=" + s + " loaded as a zone");
    }
  }
};

int main(int argc, char** argv) {
  sup::Args a(argc, argv);
  bool thorough = a.get("tier", "quick") == "thorough";
  uint64_t seed = static_cast<uint64_t>(a.getl("seed", 0));
  sup::Options opt = sup::options_from(a);
  // name mutation list (deterministic; seed only adds random extras)
  std::vector<std::pair<std::string, std::string>> names;
  {
    std::vector<std::string> canon = {"Fixed/UTC+00:00:01", "Fixed/UTC-23:59:59", "Fixed/UTC+24:00:00", "Fixed/UTC-24:00:00",
                                      "Fixed/UTC+05:30:00", "Fixed/UTC-01:02:03", "UTC", "UTC0"};
    static const char kAlpha[] = "\0/:+-. 0123456789aAzZfFuUtTcC_\xff\x80\x7f;<>,*%\t\n";
    std::string alpha(kAlpha, sizeof kAlpha - 1);
    for (auto& c : canon) {
      names.push_back({c, "canonical"});
      for (size_t i = 0; i < c.size(); ++i)
        for (char ch : alpha) {
          if (ch == c[i]) continue;
          std::string m = c;
          m[i] = ch;
          names.push_back({m, "substitute"});
        }
      for (size_t i = 0; i <= c.size(); ++i)
        for (char ch : std::string("0:+-/ \0", 7)) {
          std::string m = c;
          m.insert(i, 1, ch);
          names.push_back({m, "insert"});
        }
      for (size_t i = 0; i < c.size(); ++i) {
        std::string m = c;
        m.erase(i, 1);
        names.push_back({m, "delete"});
      }
      std::string lower = c, upper = c;
      for (auto& ch : lower) ch = static_cast<char>(tolower(ch));
      for (auto& ch : upper) ch = static_cast<char>(toupper(ch));
      names.push_back({lower, "case"});
      names.push_back({upper, "case"});
    }
    for (const char* s : {"Fixed/UTC+24:00:01", "Fixed/UTC+23:59:60", "Fixed/UTC-00:00:00", "Fixed/UTC+00:00:00", "Fixed/UTC+00:99:99",
                          "Fixed/UTC+23:60:00", "Fixed/UTC+24:00:00", "Fixed/UTC+25:00:00", "Fixed/UTC+99:99:99", "Fixed/UTC+23:59:61",
                          "Fixed/UTC+1:00:00", "Fixed/UTC+01:00", "Fixed/UTC+01", "Fixed/UTC", "Fixed/UTC+", "fixed/UTC+01:00:00",
                          "Fixed/UTC+01:00:00 ", " Fixed/UTC+01:00:00", "Fixed/UTC +1:00:00", "Fixed/UTC+01-00-00", "Fixed/UTC+01:00:0a",
                          "Fixed/UTC+0a:00:00", "Fixed/UTC++1:00:00", "Fixed/UTC+-1:00:00", "UTC1", "UTC00", "utc", "UTC+0", "", "U", "UT",
                          "GMT", "Z", "Fixed/UTC+12:34:56", "Fixed/UTC-12:34:56", "Fixed/GMT+01:00:00", "Fixed/UTC+24:00:00x"})
      names.push_back({s, "special"});
    for (const char* s : {"Fixed/UTC+00:60:00", "Fixed/UTC+00:90:00", "Fixed/UTC-01:59:60", "Fixed/UTC+00:00:99", "Fixed/UTC-00:99:99", "Fixed/UTC+23:59:60",
                          "Fixed/UTC-23:59:60", "Fixed/UTC+22:99:00", "Fixed/UTC+00:00:60", "Fixed/UTC-00:60:60"})
      names.push_back({s, "field-above-59"});
    sup::Rng r(seed, 77);
    for (int i = 0; i < (thorough ? 20000 : 3000); ++i) {
      std::string m = "Fixed/UTC+00:00:00";
      m[9] = r.chance(0.5) ? '+' : '-';
      for (int p : {10, 11, 13, 14, 16, 17}) m[p] = static_cast<char>('0' + r.range(0, 9));
      if (r.chance(0.1)) m[r.range(0, 17)] = static_cast<char>(r.range(0, 255));
      names.push_back({m, "random-digits"});
    }
  }
  const long kChunk = 500;
  long noff = (180001 + kChunk - 1) / kChunk;
  const long kNameChunk = 400;
  long nname = (static_cast<long>(names.size()) + kNameChunk - 1) / kNameChunk;
  return sup::supervise(noff + nname, opt, [&](long c, sup::Ctx& ctx) {
    Mon m(ctx, thorough);
    if (c < noff) {
      for (long o = -90000 + c * kChunk; o < -90000 + (c + 1) * kChunk && o <= 90000; ++o) m.offset_case(o);
      if (c == 0 || c == noff - 1) {
        // far beyond 24 hours, where the count no longer fits narrower integer types: multiples of 2^31/2^32/... plus a
        // legal offset, and the int64 limits. All of them are UTC.
        const long sgn = c == 0 ? -1 : 1;
        for (int sh : {31, 32, 33, 40, 48, 62})
          for (long k : {1L, 2L, 3L})
            for (long d : {-86401L, -86400L, -3600L, -1L, 0L, 1L, 59L, 3600L, 45296L, 86399L, 86400L, 86401L}) {
              __int128 v = (static_cast<__int128>(k) << sh) + d;
              if (v > INT64_MAX) continue;
              m.offset_case(sgn * static_cast<long>(v), true);
              ctx.stat("C15.offsets_beyond_int32");
            }
        for (long d : {0L, 1L, 2L, 3600L, 86400L}) m.offset_case(sgn > 0 ? INT64_MAX - d : INT64_MIN + d, true);
        sup::Rng rr(seed, 99 + static_cast<uint64_t>(c));
        for (int i = 0; i < 400; ++i) {
          long v = static_cast<long>(rr.next());
          m.offset_case(v, true);
          ctx.stat("C15.offsets_beyond_int32");
        }
      }
      if (c % 40 == 3) {
        // the first call a thread ever makes: one fresh thread per offset, for offsets that make natural sentinels
        static const long kFirst[] = {-1, 0, 1, -2, 2, 59, -59, 60, -60, 3600, -3600, 86399, -86399, 86400, -86400, 86401, -86401,
                                      2147483647L, -2147483648L, 4294967295L, INT64_MAX, INT64_MIN};
        for (long o : kFirst) {
          std::thread t([&m, o]() { m.offset_case(o, true); });
          t.join();
          ctx.stat("C15.first_calls_on_fresh_threads");
        }
      }
      if (c == noff / 2 + 7) {
        cctz::time_zone tz = cctz::fixed_time_zone(cctz::seconds(-12345));
        ctx.sample("C15", "fixed_time_zone(-12345): name=" + tz.name() + " abbr=" + tz.lookup(mk(0)).abbr + " offset=" +
                              std::to_string(tz.lookup(mk(0)).offset) + "; expected " + exp_name(-12345) + " " + exp_abbr(-12345));
      }
    } else {
      long i0 = (c - noff) * kNameChunk;
      for (long i = i0; i < i0 + kNameChunk && i < static_cast<long>(names.size()); ++i) m.name_case(names[i].first, names[i].second.c_str());
      if (c == noff) ctx.sample("C15", "name mutation 'Fixed/UTC+23:59:60' (in shape, total 86400) and 'Fixed/UTC+0\\x00:00:00' (NUL, outside shape)");
    }
  });
}
