// Oracle validation: O-ZONE (oracle.h) against glibc localtime_r with TZ=:/abs/path, 1902..2400.
// Not a cctz check: an unexplained disagreement means the *oracle* (or its reading of the file) is
// suspect, and the driver exits 2.
//   oraclecheck LIST
#include <cstdio>
#include <cstdlib>
#include <ctime>
#include <fstream>
#include <sstream>

#include "oracle.h"
#include "sup.h"
#include "zsrc.h"

int main(int argc, char** argv) {
  if (argc < 2) return 2;
  std::ifstream f(argv[1]);
  std::string line;
  long zones = 0, cmp = 0, bad = 0, skipped_v3 = 0, skipped_pre = 0, skipped_yb = 0;
  std::map<std::string, long> per_zone;
  sup::Rng rng(1, 2);
  while (std::getline(f, line)) {
    std::istringstream ss(line);
    std::string cls, name, path;
    std::getline(ss, cls, '\t');
    std::getline(ss, name, '\t');
    std::getline(ss, path, '\t');
    if (cls == "F" || path.empty()) continue;
    std::string bytes;
    if (!zsrc::read_file(path, &bytes)) continue;
    orc::Zone Z;
    if (!Z.init(bytes)) continue;
    ++zones;
    setenv("TZ", (":" + path).c_str(), 1);
    tzset();
    std::vector<int64_t> ts;
    for (auto t : Z.f.times)
      for (int d : {-1, 0, 1, 86400}) ts.push_back(t + d);
    if (Z.px_rules && !Z.f.times.empty()) {
      orc::i128 y0 = orc::civ_from_secs(Z.f.times.back()).y;
      for (orc::i128 y = y0; y <= 2399; ++y)
        for (orc::i128 b : {Z.start_of(y), Z.end_of(y)})
          for (int d : {-1, 0, 1}) ts.push_back((int64_t)(b + d));
    }
    for (int i = 0; i < 200; ++i) ts.push_back(rng.range(-2145916800LL, 13569465600LL));
    // ALLOW: glibc 2.36 does not implement the RFC 8536 extensions of version-3 footers (hours outside 0..24,
    // negative times); such footers are compared only up to the last recorded transition.
    bool v3ext = false;
    if (Z.has_px && Z.px.has_dst && !Z.px.dst_abbr.empty()) {
      for (const orc::PRule* r : {&Z.px.start, &Z.px.end})
        if (r->time < 0 || r->time > 24 * 3600) v3ext = true;
    }
    for (int64_t t : ts) {
      if (t < -2145916800LL || t > 13569465600LL) continue;  // 1902 .. 2400
      if (!Z.f.times.empty() && t < Z.f.times.front()) {
        // ALLOW: before the first transition glibc picks the first standard-time type; RFC 9636 (and the oracle) type 0
        ++skipped_pre;
        continue;
      }
      if (v3ext && !Z.f.times.empty() && t >= Z.f.times.back()) {
        ++skipped_v3;
        continue;
      }
      if (Z.px_rules && !Z.f.times.empty() && t >= Z.f.times.back()) {
        // ALLOW: glibc evaluates the rules of the UTC year of t only; a rule transition whose UTC date falls in the
        // neighbouring year (large offsets, Jan 1 / Dec 31 rules) is missed. Skip instants within 36 h of a UTC year boundary.
        // ALLOW: glibc's compute_change() sets the start of any year before 1970 to 0, so footer rules are
        // evaluated correctly only from 1970 on.
        if (t < 86400 * 2) {
          ++skipped_yb;
          continue;
        }
        orc::Civ c = orc::civ_from_secs(t);
        orc::i128 y0 = orc::days_from_civil(c.y, 1, 1) * 86400, y1 = orc::days_from_civil(c.y + 1, 1, 1) * 86400;
        if (t - y0 < 36 * 3600 || y1 - t < 36 * 3600) {
          ++skipped_yb;
          continue;
        }
      }
      time_t tt = (time_t)t;
      struct tm tm;
      if (!localtime_r(&tt, &tm)) continue;
      orc::Info e = Z.at(t);
      ++cmp;
      if (tm.tm_gmtoff != e.off || (tm.tm_isdst > 0) != e.dst || e.abbr != (tm.tm_zone ? tm.tm_zone : "")) {
        ++bad;
        ++per_zone[cls + "/" + name + " footer=" + Z.f.footer];
        if (bad <= 20)
          printf("DISAGREE glibc %s/%s t=%lld oracle=%s glibc=(%ld,%d,%s)\n", cls.c_str(), name.c_str(), (long long)t, orc::str(e).c_str(), tm.tm_gmtoff, tm.tm_isdst,
                 tm.tm_zone ? tm.tm_zone : "");
      }
    }
  }
  for (auto& kv : per_zone) printf("PERZONE %ld %s\n", kv.second, kv.first.c_str());
  printf("glibc: zones=%ld comparisons=%ld disagreements=%ld skipped_v3_footer=%ld skipped_pre_first=%ld skipped_year_boundary=%ld\n", zones, cmp, bad, skipped_v3, skipped_pre, skipped_yb);
  return bad ? 1 : 0;
}
