// O-FMT: reference renderer for the library-defined format specifiers and reference parser for
// the library-defined parse specifiers, written from the documentation in include/cctz/time_zone.h.
// Everything else is delegated by the *oracle itself* to the C library (strftime on single tokens
// with a tm the oracle fills through O-CAL).
#ifndef VERIF_FMTMODEL_H_
#define VERIF_FMTMODEL_H_

#include <climits>
#include <cstring>
#include <ctime>
#include <string>
#include <vector>

#include "oracle.h"

namespace fm {
using orc::Civ;
using orc::i128;

inline std::string dec(i128 v, int width = 0) {
  bool neg = v < 0;
  unsigned __int128 u = neg ? (unsigned __int128)(-(v + 1)) + 1 : (unsigned __int128)v;
  std::string s;
  do {
    s.insert(s.begin(), static_cast<char>('0' + static_cast<int>(u % 10)));
    u /= 10;
  } while (u);
  int w = width - (neg ? 1 : 0);
  while (static_cast<int>(s.size()) < w) s.insert(s.begin(), '0');
  if (neg) s.insert(s.begin(), '-');
  return s;
}
inline std::string d2(int v) {
  char b[8];
  snprintf(b, sizeof b, "%02d", v);
  return b;
}
inline i128 p10(int k) {
  i128 p = 1;
  while (k-- > 0) p *= 10;
  return p;
}
// mode 0: %z  1: %Ez %:z  2: %E*z %::z  3: %:::z
inline std::string offset_text(int o, int mode) {
  char sign = o < 0 ? '-' : '+';
  int a = o < 0 ? -o : o;
  int s = a % 60, m = (a / 60) % 60, h = a / 3600;
  std::string S(1, sign), P(1, '+');
  if (mode == 0) return ((h == 0 && m == 0) ? P : S) + d2(h) + d2(m);
  if (mode == 1) return ((h == 0 && m == 0) ? P : S) + d2(h) + ":" + d2(m);
  if (mode == 2) return S + d2(h) + ":" + d2(m) + ":" + d2(s);
  if (s != 0) return S + d2(h) + ":" + d2(m) + ":" + d2(s);
  if (h == 0 && m == 0) S = P;  // seconds are not rendered: a sub-minute negative offset shows '+'
  if (m != 0) return S + d2(h) + ":" + d2(m);
  return S + d2(h);
}

struct Fields {  // what lookup() reported, plus the instant and sub-second value
  Civ cs;
  int offset;
  bool is_dst;
  std::string abbr;
  int64_t unix_time;
  int64_t femto;
  int wday() const { return orc::weekday_of_days(orc::days_from_civil(cs.y, cs.m, cs.d)); }  // 0 = Sunday
  int yday() const { return static_cast<int>(orc::days_from_civil(cs.y, cs.m, cs.d) - orc::days_from_civil(cs.y, 1, 1)); }
  bool year_fits_tm() const { return cs.y >= (i128)INT_MIN + 1900 && cs.y - 1900 <= (i128)INT_MAX; }
  std::tm tm() const {
    std::tm t{};
    t.tm_sec = cs.S;
    t.tm_min = cs.M;
    t.tm_hour = cs.H;
    t.tm_mday = cs.d;
    t.tm_mon = cs.m - 1;
    t.tm_year = cs.y < (i128)INT_MIN + 1900 ? INT_MIN : (cs.y - 1900 > (i128)INT_MAX ? INT_MAX : static_cast<int>(cs.y - 1900));
    t.tm_wday = wday();
    t.tm_yday = yday();
    t.tm_isdst = is_dst ? 1 : 0;
    return t;
  }
};

// library-defined tokens with documented rendering
struct LibTok {
  const char* text;
  int id;
};
static const LibTok kLibToks[] = {
    {"%Y", 0}, {"%m", 1}, {"%d", 2}, {"%e", 3}, {"%H", 4}, {"%M", 5}, {"%S", 6}, {"%z", 7}, {"%Z", 8}, {"%s", 9}, {"%%", 10},
    {"%Ez", 11}, {"%E*z", 12}, {"%:z", 13}, {"%::z", 14}, {"%:::z", 15}, {"%E*S", 16}, {"%E*f", 17}, {"%E4Y", 18}, {"%ET", 19},
    {"%U", 20}, {"%W", 21}, {"%u", 22}, {"%w", 23}};
static const int kNumLibToks = sizeof kLibToks / sizeof kLibToks[0];

inline std::string render_lib(int id, const Fields& f) {
  switch (id) {
    case 0: return dec(f.cs.y);
    case 1: return d2(f.cs.m);
    case 2: return d2(f.cs.d);
    case 3: {
      std::string e = d2(f.cs.d);
      if (e[0] == '0') e[0] = ' ';
      return e;
    }
    case 4: return d2(f.cs.H);
    case 5: return d2(f.cs.M);
    case 6: return d2(f.cs.S);
    case 7: return offset_text(f.offset, 0);
    case 8: return f.abbr;
    case 9: return dec(f.unix_time);
    case 10: return "%";
    case 11:
    case 13: return offset_text(f.offset, 1);
    case 12:
    case 14: return offset_text(f.offset, 2);
    case 15: return offset_text(f.offset, 3);
    case 16: {
      std::string e = d2(f.cs.S);
      if (f.femto) {
        std::string fr = dec(f.femto, 15);
        while (fr.back() == '0') fr.pop_back();
        e += "." + fr;
      }
      return e;
    }
    case 17: {
      if (f.femto == 0) return "0";
      std::string fr = dec(f.femto, 15);
      while (fr.size() > 1 && fr.back() == '0') fr.pop_back();
      return fr;
    }
    case 18: return dec(f.cs.y, 4);
    case 19: return "T";
    case 20: return d2((f.yday() + 7 - f.wday()) / 7);
    case 21: return d2((f.yday() + 7 - ((f.wday() + 6) % 7)) / 7);
    case 22: return dec(f.wday() ? f.wday() : 7);
    case 23: return dec(f.wday());
  }
  return "?";
}
// %E<n>S / %E<n>f : n digits of sub-second precision, capped at 18, truncated not rounded
inline std::string render_frac(int n, bool with_seconds, const Fields& f) {
  int eff = n > 18 ? 18 : n;
  std::string fr;
  if (eff > 0) {
    i128 v = eff > 15 ? (i128)f.femto * p10(eff - 15) : (i128)f.femto / p10(15 - eff);
    fr = dec(v, eff);
  }
  if (with_seconds) return d2(f.cs.S) + (eff > 0 ? "." + fr : "");
  return fr;
}

// strftime-delegated tokens; ydep = rendering depends on tm_year
struct SysTok {
  const char* text;
  bool ydep;
};
static const SysTok kSysToks[] = {
    {"%a", false}, {"%A", false}, {"%b", false}, {"%B", false}, {"%c", true},  {"%C", true},   {"%D", true},  {"%F", true},  {"%g", true},
    {"%G", true},  {"%h", false}, {"%I", false}, {"%j", false}, {"%k", false}, {"%l", false},  {"%n", false}, {"%p", false}, {"%r", false},
    {"%R", false}, {"%t", false}, {"%T", false}, {"%V", true},  {"%x", true},  {"%X", false},  {"%y", true},  {"%Ec", true}, {"%EC", true},
    {"%Ex", true}, {"%EX", false}, {"%Ey", true}, {"%EY", true}, {"%Od", false}, {"%Oe", false}, {"%OH", false}, {"%OI", false}, {"%Om", false},
    {"%OM", false}, {"%OS", false}, {"%Ou", false}, {"%OU", false}, {"%OV", true}, {"%Ow", false}, {"%OW", false}, {"%Oy", true},
    // glibc flags and widths (passed through to strftime untouched)
    {"%^a", false}, {"%^B", false}, {"%-d", false}, {"%_H", false}, {"%06j", false}, {"%#p", false}, {"%-I", false}, {"%3M", false}};
static const int kNumSysToks = sizeof kSysToks / sizeof kSysToks[0];
inline std::string render_sys(const char* tok, const Fields& f) {
  std::tm t = f.tm();
  char buf[1024];
  size_t n = strftime(buf, sizeof buf, tok, &t);
  return std::string(buf, n);
}

// ------------------------------------------------------------------ reference parser
inline bool sp(char c) { return c == ' ' || c == '\t' || c == '\n' || c == '\v' || c == '\f' || c == '\r'; }

// integer field: optional '-', digits; width 0 = unlimited, otherwise at most `width` characters
// including the sign; "-0" and a bare '-' are not numbers; value within [lo, hi]
inline bool pint(const std::string& s, size_t& p, int width, i128 lo, i128 hi, i128* out) {
  size_t q = p;
  bool neg = false;
  if (q < s.size() && s[q] == '-') {
    neg = true;
    if (width > 0) {
      if (--width == 0) return false;
    }
    ++q;
  }
  size_t b = q;
  i128 v = 0;
  bool over = false;
  while (q < s.size() && s[q] >= '0' && s[q] <= '9') {
    if (!over) {
      v = v * 10 + (s[q] - '0');
      if (v > ((i128)1 << 64)) over = true;
    }
    ++q;
    if (width > 0 && --width == 0) break;
  }
  if (q == b || over) return false;
  if (neg) {
    if (v == 0) return false;
    v = -v;
  }
  if (v < lo || v > hi) return false;
  *out = v;
  p = q;
  return true;
}
// fraction digits: at least one; digits beyond femtoseconds are consumed and dropped
inline bool psub(const std::string& s, size_t& p, i128* fs) {
  size_t q = p;
  i128 v = 0;
  int e = 0;
  while (q < s.size() && s[q] >= '0' && s[q] <= '9') {
    if (e < 15) {
      v = v * 10 + (s[q] - '0');
      e++;
    }
    ++q;
  }
  if (q == p) return false;
  while (e < 15) {
    v *= 10;
    e++;
  }
  *fs = v;
  p = q;
  return true;
}
// +-hh[[:]mm[[:]ss]] | Z | z ; a field that is not two digits is not part of the offset
inline bool poff(const std::string& s, size_t& p, bool colon, i128* off) {
  if (p >= s.size()) return false;
  char f = s[p];
  size_t q = p + 1;
  if (f == '+' || f == '-') {
    i128 h = 0, m = 0, sec = 0;
    size_t a = q;
    if (!pint(s, a, 2, 0, 23, &h) || a - q != 2) return false;
    q = a;
    size_t b = a;
    if (colon && b < s.size() && s[b] == ':') ++b;
    size_t c = b;
    if (pint(s, c, 2, 0, 59, &m) && c - b == 2) {
      q = c;
      size_t d = c;
      if (colon && d < s.size() && s[d] == ':') ++d;
      size_t e = d;
      if (pint(s, e, 2, 0, 59, &sec) && e - d == 2)
        q = e;
      else
        sec = 0;
    } else {
      m = 0;
    }
    i128 o = (h * 60 + m) * 60 + sec;
    if (f == '-') o = -o;
    *off = o;
    p = q;
    return true;
  }
  if (f == 'Z' || f == 'z') {
    *off = 0;
    p = q;
    return true;
  }
  return false;
}

struct ParseRes {
  enum { REJECT, ACCEPT, OUTSIDE_MODEL } st = REJECT;
  bool has_offset = false;   // instant is absolute (t valid); otherwise local (L valid, zone decides)
  i128 t = 0;                // when has_offset or %s
  i128 L = 0;                // local seconds count of the civil time to be read in the supplied zone
  i128 fs = 0;
  bool percent_s = false;
};

// Parses `in` according to `fmt` for formats made of library specifiers, literals and whitespace.
inline ParseRes model_parse(const std::string& fmt, const std::string& in) {
  ParseRes R;
  size_t d = 0;
  while (d < in.size() && sp(in[d])) ++d;
  i128 year = 1970, mon = 1, day = 1, hh = 0, mm = 0, ss = 0, fs = 0, off = 0, ps = 0;
  bool sawoff = false, saws = false;
  int week = -1, week_start = 0;  // 0 = Sunday
  int wday = 4;
  const i128 MN = orc::I64MIN, MX = orc::I64MAX;
  size_t f = 0;
  auto outside = [&]() {
    R.st = ParseRes::OUTSIDE_MODEL;
    return R;
  };
  while (f < fmt.size()) {
    char c = fmt[f];
    if (c == '\0') return outside();
    if (sp(c)) {
      while (d < in.size() && sp(in[d])) ++d;
      while (f < fmt.size() && sp(fmt[f])) ++f;
      continue;
    }
    if (c != '%') {
      if (d < in.size() && in[d] == c) {
        ++d;
        ++f;
        continue;
      }
      return R;
    }
    ++f;
    if (f >= fmt.size()) return R;
    char k = fmt[f++];
    i128 tmp;
    switch (k) {
      case 'Y':
        if (!pint(in, d, 0, MN, MX, &year)) return R;
        break;
      case 'm':
        if (!pint(in, d, 2, 1, 12, &mon)) return R;
        week = -1;
        break;
      case 'd':
      case 'e':
        if (!pint(in, d, 2, 1, 31, &day)) return R;
        week = -1;
        break;
      case 'U':
        if (!pint(in, d, 0, 0, 53, &tmp)) return R;
        week = static_cast<int>(tmp);
        week_start = 0;
        break;
      case 'W':
        if (!pint(in, d, 0, 0, 53, &tmp)) return R;
        week = static_cast<int>(tmp);
        week_start = 1;
        break;
      case 'u':
        if (!pint(in, d, 0, 1, 7, &tmp)) return R;
        wday = static_cast<int>(tmp) % 7;
        break;
      case 'w':
        if (!pint(in, d, 0, 0, 6, &tmp)) return R;
        wday = static_cast<int>(tmp);
        break;
      case 'H':
        if (!pint(in, d, 2, 0, 23, &hh)) return R;
        break;
      case 'M':
        if (!pint(in, d, 2, 0, 59, &mm)) return R;
        break;
      case 'S':
        if (!pint(in, d, 2, 0, 60, &ss)) return R;
        break;
      case 'z':
        if (!poff(in, d, false, &off)) return R;
        sawoff = true;
        break;
      case 's':
        if (!pint(in, d, 0, MN, MX, &ps)) return R;
        saws = true;
        break;
      case '%':
        if (d < in.size() && in[d] == '%')
          ++d;
        else
          return R;
        break;
      case ':': {
        size_t n = 0;
        while (f + n < fmt.size() && fmt[f + n] == ':') ++n;
        if (n <= 2 && f + n < fmt.size() && fmt[f + n] == 'z') {
          f += n + 1;
          if (!poff(in, d, true, &off)) return R;
          sawoff = true;
        } else {
          return outside();
        }
        break;
      }
      case 'E': {
        if (f < fmt.size() && fmt[f] == 'T') {
          ++f;
          if (d < in.size() && (in[d] == 'T' || in[d] == 't'))
            ++d;
          else
            return R;
          break;
        }
        if (f < fmt.size() && fmt[f] == 'z') {
          ++f;
          if (!poff(in, d, true, &off)) return R;
          sawoff = true;
          break;
        }
        if (f + 1 < fmt.size() && fmt[f] == '*' && fmt[f + 1] == 'z') {
          f += 2;
          if (!poff(in, d, true, &off)) return R;
          sawoff = true;
          break;
        }
        if (f + 1 < fmt.size() && fmt[f] == '4' && fmt[f + 1] == 'Y') {
          f += 2;
          size_t b = d;
          if (!pint(in, d, 4, -999, 9999, &year) || d - b != 4) return R;
          break;
        }
        size_t g = f;
        bool star = false;
        if (g < fmt.size() && fmt[g] == '*') {
          star = true;
          ++g;
        } else {
          while (g < fmt.size() && fmt[g] >= '0' && fmt[g] <= '9') ++g;
          if (g - f > 3) return outside();  // digit counts above 1024 are not an extension
        }
        if (g < fmt.size() && (fmt[g] == 'S' || fmt[g] == 'f') && (star || g > f)) {
          bool S = fmt[g] == 'S';
          f = g + 1;
          if (S) {
            if (!pint(in, d, 2, 0, 60, &ss)) return R;
            if (d < in.size() && in[d] == '.') {
              ++d;
              if (!psub(in, d, &fs)) return R;
            }
          } else {
            if (d < in.size() && in[d] >= '0' && in[d] <= '9') {
              if (!psub(in, d, &fs)) return R;
            }
          }
          break;
        }
        return outside();
      }
      default:
        return outside();  // delegated to strptime: not modelled
    }
  }
  while (d < in.size() && sp(in[d])) ++d;
  if (d != in.size()) return R;
  if (saws) {
    R.st = ParseRes::ACCEPT;
    R.percent_s = true;
    R.has_offset = true;
    R.t = ps;
    R.fs = 0;
    return R;
  }
  if (ss == 60) {  // ':60' rolls to the next minute, fraction dropped
    ss = 59;
    off -= 1;
    fs = 0;
  }
  if (week != -1) {
    i128 jan1 = orc::days_from_civil(year, 1, 1);
    int wd1 = orc::weekday_of_days(jan1);
    // last week-start day strictly before Jan 1
    i128 base = jan1 - (((wd1 - week_start) % 7 + 7 - 1) % 7 + 1);
    i128 dayn = base + ((wday - week_start) % 7 + 7) % 7 + 7 * (i128)week;
    i128 y2;
    int m2, d2v;
    orc::civil_from_days(dayn, &y2, &m2, &d2v);
    if (!orc::fits64(y2)) return R;
    year = y2;
    mon = m2;
    day = d2v;
  }
  if (day > orc::month_len(year, static_cast<int>(mon))) return R;  // no normalisation
  i128 local = orc::days_from_civil(year, static_cast<int>(mon), static_cast<int>(day)) * 86400 + hh * 3600 + mm * 60 + ss;
  i128 Lmax = orc::secs_from_civ(Civ{orc::I64MAX, 12, 31, 23, 59, 59}), Lmin = orc::secs_from_civ(Civ{orc::I64MIN, 1, 1, 0, 0, 0});
  i128 adj = local - off;
  if (adj > Lmax || adj < Lmin) return R;
  R.fs = fs;
  if (sawoff) {
    if (adj > MX || adj < MN) return R;
    R.st = ParseRes::ACCEPT;
    R.has_offset = true;
    R.t = adj;
    return R;
  }
  R.st = ParseRes::ACCEPT;
  R.has_offset = false;
  R.L = adj;
  return R;
}

}  // namespace fm

#endif  // VERIF_FMTMODEL_H_
