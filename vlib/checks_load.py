"""C12: hostile zone data (harness/loadmon.cc): ASan+UBSan gate, per-case watchdog, in-process and
cross-build determinism (pattern- vs zero-initialised automatic variables), memcheck sample (thorough),
libFuzzer (thorough)."""
import glob
import os
import re
import shutil
import subprocess

from . import build, core, corpus

RULE = ("case = one byte string <= 64 KiB offered through a ZoneInfoSource: structure-aware mutations of shipped, zic-built and "
        "synthesised files at the TZif-structure level (declared counts with/without resizing, 256+ types, type/abbreviation "
        "indices at their bounds, hostile and out-of-order 8-byte times, UT offsets at +-86399..86401, version sweep, footer "
        "from the POSIX grammar and its near misses, footer framing, leap records, indicator counts, far seams, crossing "
        "transitions, dst flags) and at the byte level (bit flips, byte sets aimed at the headers, truncation at structural "
        "boundaries, splices, in-place time and count edits, insert/delete). Each is loaded twice under fresh names; outcome "
        "digest = result, ==utc, description, 40+ lookups both ways, next/prev chains, format. Non-trivial = distinct byte string.")


def read_digests(outdir):
    d = {}
    for p in glob.glob(os.path.join(outdir, "w*.res")):
        with open(p, errors="replace") as f:
            for line in f:
                if line.startswith("DIGEST\t"):
                    parts = line.rstrip("\n").split("\t")
                    d[int(parts[1])] = (parts[2], parts[3], parts[4], parts[5] if len(parts) > 5 else "")
    return d


def run(prop, tier, seed, replay=None):
    chk = core.Check(prop, tier, seed, replay)
    chk.assumptions = [
        "inputs whose header declares more than 64 MiB of data are skipped (the statement's memory proviso) and counted",
        "a clean sanitizer run is not memory safety: intra-object overflows and reuse of quarantined memory are invisible",
        "uninitialised reads are observed through the pattern/zero pre-fill differential and (thorough) valgrind memcheck, not MSan",
    ]
    try:
        exe = build.build_bin("asan", "loadmon")
        exe_pat = build.build_bin("pat", "loadmon")
        exe_zero = build.build_bin("zero", "loadmon")
    except build.BuildError as e:
        chk.inconclusive_because("build failed: %s" % str(e)[-1500:])
        return chk.finish()
    cdir = os.path.join(chk.workdir, "corpus")
    if tier == "thorough":
        ents = corpus.build_corpus(cdir, seed, r_sample=None, n_s=300, n_early=20, n_ancient=10, n_z=60, want_fixed=False)
        n = 1500000
    else:
        ents = corpus.build_corpus(cdir, seed, r_sample=60, n_s=80, n_early=6, n_ancient=4, n_z=20, want_fixed=False)
        n = 30000
    bases = os.path.join(cdir, "list.txt")
    common = ["--bases", bases, "--n", str(n), "--seed", str(seed), "--workers", str(core.ncpu())]
    ra = replay.get("replay_args", {}) if replay else {}
    if "case" in ra:
        common += ["--only-case", str(ra["case"])]
    env = build.san_env("asan")
    env["ASAN_OPTIONS"] += ":malloc_fill_byte=255:max_malloc_fill_size=268435456"
    out = os.path.join(chk.workdir, "asan")
    res, rc = core.run_monitor(exe, common + ["--case-timeout", "20"], env, out, timeout=7200 if tier == "thorough" else 1200)
    # hangs: re-run each once alone with a generous watchdog before believing it
    confirmed = []
    for (case, secs, desc) in res.hangs[:4]:
        r2, _ = core.run_monitor(exe, ["--bases", bases, "--n", str(n), "--seed", str(seed), "--only-case", str(case), "--case-timeout", "60"],
                                 env, os.path.join(chk.workdir, "hang%d" % case), timeout=300)
        if r2.hangs:
            confirmed.append((case, secs, desc))
        else:
            chk.inconclusive_because("watchdog fired once for case %d but not on re-run" % case)
    res.hangs = confirmed
    chk.absorb(res, replay_args=dict(monitor="loadmon"))
    dig = {"asan": read_digests(out), "pat": {}, "zero": {}}
    # a confirmed hang is a violation already; the determinism legs would only sit on the same inputs for an hour
    skip_digest_legs = bool(confirmed)
    # determinism across builds that pre-fill automatic variables differently
    for flav, e in (() if skip_digest_legs else (("pat", exe_pat), ("zero", exe_zero))):
        o = os.path.join(chk.workdir, flav)
        r2, rc2 = core.run_monitor(e, common + ["--digest-only", "--case-timeout", "60"], build.san_env(flav), o,
                                   timeout=7200 if tier == "thorough" else 1200)
        dig[flav] = read_digests(o)
        for (p, key, detail) in r2.viols:
            chk.violation(key + ":" + flav + "-build", detail, replay_args=dict(monitor="loadmon"))
        for (case, how, errfile, desc) in r2.crashes:
            key, text = core.crash_key(how, errfile, desc)
            chk.violation(key + ":" + flav + "-build", "case=%d %s (%s)" % (case, desc, how), files=[errfile], replay_args=dict(monitor="loadmon", case=case))
        if rc2 != 0:
            chk.inconclusive_because("%s build run failed" % flav)
    # determinism across heap pre-fill: a second ASan run whose malloc'ed memory is zero-filled instead of 0xff-filled
    o2 = os.path.join(chk.workdir, "asan-fill00")
    env2 = build.san_env("asan")
    env2["ASAN_OPTIONS"] += ":malloc_fill_byte=0:max_malloc_fill_size=268435456"
    if skip_digest_legs:
        r3, rc3 = core.Results(), 0
        dig["asan00"] = {}
    else:
        r3, rc3 = core.run_monitor(exe, common + ["--digest-only", "--case-timeout", "60"], env2, o2, timeout=7200 if tier == "thorough" else 1200)
        dig["asan00"] = read_digests(o2)
    heap_compared = heap_diff = 0
    for case, (h, ok, cls, label) in dig["asan"].items():
        z = dig["asan00"].get(case)
        if z is None:
            continue
        heap_compared += 1
        if z[0] != h:
            heap_diff += 1
            chk.violation("nondeterministic-across-heap-fill:%s" % cls,
                          "case=%d mutation=%s: outcome digest differs between malloc_fill_byte=0xff (%s) and 0x00 (%s)" % (case, label, h, z[0]),
                          replay_args=dict(monitor="loadmon", case=case))
    ndiff = 0
    compared = 0
    for case, (h, ok, cls, label) in dig["pat"].items():
        z = dig["zero"].get(case)
        if z is None:
            continue
        compared += 1
        if z[0] != h:
            ndiff += 1
            chk.violation("nondeterministic-across-prefill:%s" % cls,
                          "case=%d mutation=%s: outcome digest differs between -ftrivial-auto-var-init=pattern (%s, ok=%s) and =zero (%s, ok=%s)"
                          % (case, label, h, ok, z[0], z[1]), replay_args=dict(monitor="loadmon", case=case))
        a = dig["asan"].get(case)
        if a is not None and a[0] != h:
            chk.violation("nondeterministic-across-builds:%s" % cls,
                          "case=%d mutation=%s: digest differs between asan and pattern builds" % (case, label),
                          replay_args=dict(monitor="loadmon", case=case))
    cov = dict(evaluations=res.stat("C12.evaluations"), distinct_nontrivial=len(res.dist.get("C12", ())), rule=RULE,
               samples=res.samples.get("C12", [])[:5], base_files=len(ents), sanitizer_reports=len(res.crashes),
               hangs_confirmed=len(confirmed), digests_compared_pattern_vs_zero=compared, digest_differences=ndiff,
               digests_compared_heap_fill_ff_vs_00=heap_compared, heap_fill_digest_differences=heap_diff,
               flavours_run=["asan (address+undefined, fatal; heap filled with 0xff)", "asan with heap filled with 0x00 (digests only)", "pat (-ftrivial-auto-var-init=pattern)", "zero (-ftrivial-auto-var-init=zero)"])
    for k, v in sorted(res.stats.items()):
        if k.startswith("C12.") and k.split(".", 1)[1] not in ("evaluations", "distinct_nontrivial"):
            cov[k.split(".", 1)[1]] = v
    if tier == "thorough" and not replay:
        memcheck_leg(chk, cov, bases, seed)
        fuzz_leg(chk, cov, cdir)
    chk.coverage = cov
    if not replay:
        for k in ("C12.loads_succeeded", "C12.loads_failed", "C12.mutation.spec:many-types-all-dst", "C12.mutation.bytes:truncate",
                  "C12.mutation.spec:footer-grammar", "C12.class.H-other"):
            if res.stat(k) == 0:
                chk.inconclusive_because("monitor observed no '%s' events" % k)
        if compared == 0:
            chk.inconclusive_because("no digests compared across builds")
    return chk.finish()


def memcheck_leg(chk, cov, bases, seed):
    try:
        exe = build.build_bin("plain", "loadmon")
    except build.BuildError as e:
        chk.inconclusive_because("plain build failed: %s" % str(e)[-500:])
        return
    out = os.path.join(chk.workdir, "memcheck")
    os.makedirs(out, exist_ok=True)
    n = 6000
    cmd = ["valgrind", "--tool=memcheck", "--error-exitcode=0", "--trace-children=no", "--track-origins=no", "--num-callers=20",
           "--log-file=%s/vg.%%p.log" % out, exe, "--bases", bases, "--n", str(n), "--seed", str(seed + 1), "--workers", str(core.ncpu()),
           "--digest-only", "--case-timeout", "600", "--out", out]
    try:
        subprocess.run(cmd, env=build.san_env("plain"), stdout=subprocess.PIPE, stderr=subprocess.PIPE, timeout=5400)
    except subprocess.TimeoutExpired:
        chk.inconclusive_because("memcheck leg timed out")
        return
    res = core.Results()
    res.add_dir(out)
    errs = 0
    sites = {}
    for p in glob.glob(os.path.join(out, "vg.*.log")):
        with open(p, errors="replace") as f:
            text = f.read()
        for m in re.finditer(r"==\d+== (Conditional jump or move depends on uninitialised value|Use of uninitialised value|Invalid read|Invalid write|Syscall param .* uninitialised)[^\n]*\n((?:==\d+==    (?:at|by) [^\n]*\n)+)", text):
            frames = m.group(2)
            fm = re.search(r"(?:at|by) 0x[0-9A-F]+: ([^\n(]*cctz[^\n]*)", frames)
            site = (fm.group(1).strip() if fm else "unknown")[:120]
            if "cctz" not in frames:
                continue
            errs += 1
            sites[site] = sites.get(site, 0) + 1
    cov["memcheck_cases"] = res.stat("C12.cases_generated")
    cov["memcheck_reports_in_cctz"] = errs
    for site, cnt in sites.items():
        chk.violation("memcheck:%s" % re.sub(r"\s+", "_", site), "valgrind memcheck: %d reports at %s" % (cnt, site))
    if res.stat("C12.cases_generated") == 0:
        chk.inconclusive_because("memcheck leg ran no cases")


def fuzz_leg(chk, cov, cdir):
    # coverage-guided depth: libFuzzer target harness/fuzz_load.cc (clang), seeds = corpus files
    try:
        exe = build.build_bin("fuzz", "fuzz_load")
    except build.BuildError as e:
        chk.inconclusive_because("fuzz build failed: %s" % str(e)[-800:])
        return
    seeds = os.path.join(chk.workdir, "fuzz-seeds")
    os.makedirs(seeds, exist_ok=True)
    i = 0
    with open(os.path.join(cdir, "list.txt")) as f:
        for line in f:
            p = line.rstrip("\n").split("\t")[2]
            try:
                shutil.copy(p, os.path.join(seeds, "seed%04d" % i))
                i += 1
            except OSError:
                pass
    art = os.path.join(chk.workdir, "fuzz-artifacts") + "/"
    os.makedirs(art, exist_ok=True)
    env = build.san_env("asan")
    env["ASAN_OPTIONS"] += ":quarantine_size_mb=8"
    runs = 400000
    cmd = [exe, "-max_len=65536", "-runs=%d" % runs, "-jobs=%d" % core.ncpu(), "-workers=%d" % core.ncpu(), "-timeout=20",
           "-rss_limit_mb=4096", "-artifact_prefix=" + art, "-print_final_stats=1", seeds]
    try:
        p = subprocess.run(cmd, env=env, cwd=chk.workdir, stdout=subprocess.PIPE, stderr=subprocess.STDOUT, timeout=5400, text=True, errors="replace")
    except subprocess.TimeoutExpired:
        chk.inconclusive_because("fuzz leg timed out")
        return
    execs = 0
    covmax = 0
    for lp in glob.glob(os.path.join(chk.workdir, "fuzz-*.log")):
        with open(lp, errors="replace") as f:
            t = f.read()
        for m in re.finditer(r"stat::number_of_executed_units:\s*(\d+)", t):
            execs += int(m.group(1))
        for m in re.finditer(r"cov: (\d+)", t):
            covmax = max(covmax, int(m.group(1)))
    cov["fuzz_executions"] = execs
    cov["fuzz_edge_coverage"] = covmax
    arts = [a for a in os.listdir(art)]
    env["VERIF_PRINT_CLASS"] = "1"
    for a in arts[:10]:
        # triage: re-run the artifact through the monitor-free reproducer to get the report
        r = subprocess.run([exe, os.path.join(art, a)], env=env, stdout=subprocess.PIPE, stderr=subprocess.STDOUT, text=True, errors="replace", timeout=120)
        errfile = os.path.join(chk.workdir, "fuzz-" + a + ".err")
        with open(errfile, "w") as f:
            f.write(r.stdout)
        cls = "H-fuzz"
        m = re.search(r"INPUT-CLASS: (\S+)", r.stdout)
        if m:
            cls = m.group(1)
        key, text = core.crash_key("fuzz-artifact", errfile, "class=%s" % cls)
        if a.startswith("timeout-"):
            key = "hang:%s" % cls
        chk.violation(key, "libFuzzer artifact %s\n%s" % (a, text[:2000]), files=[os.path.join(art, a), errfile])
    if execs == 0:
        chk.inconclusive_because("fuzzer reported no executions")
