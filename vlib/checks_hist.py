"""C14: history independence (harness/histmon.cc): hint-state enumeration with the hint hook as witness,
random histories on two copies + fresh copies, name-cache behaviour with a counting data source."""
import os

from . import build, core, corpus

RULE = ("per zone: (1) for every breakpoint of the transition table (recorded transitions, rule-generated transitions, sentinels) one "
        "state-setting query in that interval, in the instant and in the civil direction, followed by each of ~24 probe queries "
        "(edges of the neighbouring intervals, far intervals, before-first, after-last, 400-year shifts, same interval, int64 "
        "limits); the answer on copy A (state just set) must equal the answer on copy B (same bytes, other name) whose previous "
        "query was unrelated; the guarded hint hook reports which (zone, direction, index) states were stored and which probes were "
        "answered from the hint; (2) 2500 (thorough 10000) random API calls on A and on B with independent histories, a separately "
        "drawn query compared after each, every 100th also against a freshly loaded copy; (3) load / query / repeat load / data "
        "removed / repeat load with a counting data source; failed names (missing, garbage) re-loaded after valid data appears; "
        "(4) 40 (thorough 300) histories in child processes that change TZDIR/TZ/LOCALTIME between first-time loads and "
        "local_time_zone() calls, each step predicted from the environment of that moment plus the name cache. "
        "Non-trivial = distinct (zone, direction, hint index) whose use was confirmed by the hook.")


def run(prop, tier, seed, replay=None):
    chk = core.Check(prop, tier, seed, replay)
    chk.assumptions = ["hidden state = one remembered table index per direction (observed through the GOOGLE_CCTZ_VERIF hint hook) + the name cache",
                       "copy B and fresh copies are the same bytes under other cache keys, so their hidden state is independent by construction"]
    try:
        exe = build.build_bin("asan", "histmon")
    except build.BuildError as e:
        chk.inconclusive_because("build failed: %s" % str(e)[-1500:])
        return chk.finish()
    cdir = os.path.join(chk.workdir, "corpus")
    if tier == "thorough":
        corpus.build_corpus(cdir, seed, r_sample=None, n_s=400, n_early=30, n_ancient=0, n_z=100, want_fixed=False)
    else:
        corpus.build_corpus(cdir, seed, r_sample=100, n_s=120, n_early=8, n_ancient=0, n_z=30, want_fixed=False)
    args = ["--zones", os.path.join(cdir, "list.txt"), "--seed", str(seed), "--tier", tier, "--workers", str(core.ncpu()), "--case-timeout", "900"]
    if replay and "case" in replay.get("replay_args", {}):
        args += ["--only-case", str(replay["replay_args"]["case"])]
    res, rc = core.run_monitor(exe, args, build.san_env("asan"), os.path.join(chk.workdir, "out"), timeout=7200 if tier == "thorough" else 1200)
    chk.absorb(res, replay_args=dict(monitor="histmon"))
    cov = dict(evaluations=res.stat("C14.evaluations"), distinct_nontrivial=res.stat("C14.distinct_nontrivial"), rule=RULE,
               samples=res.samples.get("C14", [])[:4], sanitizer_reports=len(res.crashes))
    for k, v in sorted(res.stats.items()):
        if k.startswith("C14.") and k.split(".", 1)[1] not in ("evaluations", "distinct_nontrivial"):
            cov[k.split(".", 1)[1]] = v
    stores, hits = res.stat("C14.hint_stores_seen_by_hook"), res.stat("C14.hint_hits_seen_by_hook")
    cov["hint_mechanism_present"] = bool(stores or hits)
    if not (stores or hits):
        # the hook never fired: the implementation keeps no per-direction index (e.g. hints removed); then the
        # enumeration has nothing hidden to reach and the comparisons stand on their own
        cov["distinct_nontrivial"] = res.stat("C14.table_breakpoints_enumerated")
    if not replay:
        # histories that change the process environment between calls (default file data source, child processes):
        # a first-time load must resolve against the environment of that moment, whatever was called before
        try:
            from . import checks_env
            exe_env = build.build_bin("asan", "envprobe")
            base_env = build.san_env("asan")
            for k in ("TZ", "TZDIR", "LOCALTIME"):
                base_env.pop(k, None)
            nsteps = checks_env.sequence_leg(chk, cov, exe_env, base_env, chk.workdir, seed, 300 if tier == "thorough" else 40, prop="C14")
            cov["evaluations"] += nsteps
            if nsteps == 0:
                chk.inconclusive_because("environment-history leg observed nothing")
        except build.BuildError as e:
            chk.inconclusive_because("build failed: %s" % str(e)[-1500:])
    chk.coverage = cov
    if not replay:
        if stores and not hits:
            chk.inconclusive_because("hint stores were observed but no probe was answered from a hint: the monitor did not reach the hidden state")
        for k in ("C14.random_history_steps", "C14.fresh_copy_comparisons", "C14.cache_sequences", "C14.failed_name_sequences", "C14.hint_state_probes", "C14.bulk_cache_names"):
            if res.stat(k) == 0:
                chk.inconclusive_because("monitor observed no '%s' events" % k)
    return chk.finish()
