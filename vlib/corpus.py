"""Zone corpus: classes R (shipped), Z (zic-compiled generated rules), S / S-early / S-ancient
(own TZif writer, forms zic rarely emits), F (fixed offsets, oracle file only).
All generation is deterministic in the seed. See DESIGN.md 2.5 for the domain constraints."""
import os
import random
import struct
import subprocess

from . import pymodel as M

REPO = os.environ.get("VERIF_REPO") or os.environ.get("VP_RUN_REPO") or "/repo"
ZIC = "/usr/sbin/zic"
SPD = 86400


# ----------------------------------------------------------------- TZif writer
def tzif_bytes(trans, types, abbrs, footer, version=b"2", v1="slim", isstd=None, isut=None):
    """trans: [(time, type_index)], types: [(utoff, isdst, abbr_index)], abbrs: bytes (NUL separated),
    footer: str or None (None only for version 0)."""
    def block(tl, tr, with_ind=True):
        nstd = len(isstd) if (isstd and with_ind) else 0
        nut = len(isut) if (isut and with_ind) else 0
        hdr = b"TZif" + version + b"\0" * 15 + struct.pack(">6l", nut, nstd, 0, len(tr), len(types), len(abbrs))
        f = ">l" if tl == 4 else ">q"
        b = b"".join(struct.pack(f, t) for t, _ in tr) + bytes(i for _, i in tr)
        b += b"".join(struct.pack(">lBB", *t) for t in types) + abbrs
        if nstd:
            b += bytes(isstd)
        if nut:
            b += bytes(isut)
        return hdr + b
    v1tr = [x for x in trans if -2 ** 31 <= x[0] < 2 ** 31]
    if version == b"\0":
        return block(4, v1tr)
    if v1 == "slim":
        b1 = b"TZif" + version + b"\0" * 15 + struct.pack(">6l", 0, 0, 0, 0, 1, 1) + struct.pack(">lBB", 0, 0, 0) + b"\0"
    else:
        b1 = block(4, v1tr)
    return b1 + block(8, trans) + b"\n" + (footer or "").encode("latin1") + b"\n"


def fmt_hms(v, always_sign=False):
    s = "-" if v < 0 else ("+" if always_sign else "")
    v = abs(v)
    h, m, ss = v // 3600, (v // 60) % 60, v % 60
    r = "%s%d" % (s, h)
    if m or ss:
        r += ":%02d" % m
    if ss:
        r += ":%02d" % ss
    return r


def posix_off(utoff):
    return fmt_hms(-utoff)


def rnd_abbr(r, used):
    while True:
        k = r.random()
        if k < 0.3:
            raw = r.choice("+-") + "%02d" % r.randrange(0, 15) + r.choice(["", "30", "45"])
            a = "<" + raw + ">"
        elif k < 0.4:
            raw = "".join(r.choice("ABCDEFGHIJKLMNOPQRSTUVWXYZ0123456789+-") for _ in range(r.choice([3, 4, 6])))
            a = "<" + raw + ">"
        else:
            raw = "".join(r.choice("ABCDEFGHIJKLMNOPQRSTUVWXYZ") for _ in range(r.choice([3, 3, 4, 5, 6])))
            a = raw
        if raw not in used and ">" not in raw:
            used.add(raw)
            return a, raw


def rnd_date(r, form):
    if form == "M":
        return "M%d.%d.%d" % (r.randrange(1, 13), r.randrange(1, 6), r.randrange(0, 7))
    if form == "J":
        return "J%d" % r.choice([1, 59, 60, 365, r.randrange(1, 366), r.randrange(1, 366)])
    return "%d" % r.choice([0, 58, 59, 60, 364, 365, r.randrange(0, 366), r.randrange(0, 366)])


def rnd_time(r, form):
    if form == "default":
        return ""
    if form == "hour":
        return "/%d" % r.randrange(0, 25)
    if form == "neg":
        v = -r.randrange(1, 167 * 3600 + 3600)
    elif form == "big":
        v = r.randrange(24 * 3600 + 1, 167 * 3600 + 3600)
    elif form == "edge":
        v = r.choice([-167 * 3600 - 3599, 167 * 3600 + 3599, -167 * 3600, 167 * 3600, 0, 86400, -1, 1])
    else:
        v = r.randrange(-167 * 3600, 167 * 3600 + 1)
    if r.random() < 0.5:
        v = int(v / 3600) * 3600  # toward zero, stays within +-167h
    return "/" + fmt_hms(v, always_sign=(r.random() < 0.1 and v >= 0))


FOOTER_FORMS = ["M", "J", "N", "mixed", "neg-time", "big-time", "edge-time", "south", "neg-save", "allyear",
                "std-only", "empty", "sec-offsets", "M", "mixed", "v1", "year-edge", "year-edge", "year-edge", "near-allyear", "max-straddle", "many-types", "both-cross", "near-allyear-mirror"]


def footer_ok(p, min_sep=20 * SPD):
    """Domain constraint (iv): over a 400-year cycle, rule transitions strictly alternate and are
    >= 20 days apart (so both of year Y precede both of year Y+1). The near-all-year form relaxes the
    distance to twice the size of the change (the transitions still do not cross)."""
    ev = []
    for yy in range(1999, 1999 + 402):
        ev.append((p.start_of(yy), 1))
        ev.append((p.end_of(yy), 0))
    ev.sort()
    for (a, ka), (b, kb) in zip(ev, ev[1:]):
        if ka == kb or b - a < min_sep:
            return False
    return True


def gen_footer(r, form, used):
    """returns (footer string, std(off, raw abbr), dst(off, raw abbr) or None)"""
    for _ in range(500):
        u = set(used)
        so = r.choice([r.randrange(-14, 15) * 3600, r.randrange(-50400, 50401) // 900 * 900, r.randrange(-86399, 86400)])
        if form == "sec-offsets":
            so = r.randrange(-86399, 86400)
        sa, sraw = rnd_abbr(r, u)
        footer = sa + posix_off(so)
        if form in ("std-only",):
            used |= u
            return footer, (so, sraw), None
        save = r.choice([3600, 3600, 3600, 1800, 7200, 1200, r.randrange(60, 7201)])
        if form == "neg-save":
            save = -r.choice([3600, 3600, 1800, r.randrange(60, 7201)])
        if form == "sec-offsets":
            save = r.randrange(1, 7200)
        do = so + save
        if abs(do) >= 86400:
            continue
        da, draw = rnd_abbr(r, u)
        footer += da
        if save != 3600 or r.random() < 0.3:
            footer += posix_off(do)
        if form == "allyear":
            x = 86400 + save
            footer += ",0/0,J365/" + fmt_hms(x)
        elif form == "max-straddle":
            # a rule transition within minutes of Dec 4 15:30:07 UTC, the residue of time_point::max() in the 400-year cycle
            want_utc = 15 * 3600 + 30 * 60 + 7 + r.choice([0, -1807, 1200, -600, 2707, 1, -1])
            if r.random() < 0.5:   # the start of DST (read in standard time) sits there
                tloc = want_utc + so
                footer += ",J338/" + fmt_hms(tloc) + "," + r.choice(["J60/0", "M3.2.0", "100/3"])
            else:                  # the end of DST (read in daylight time) sits there
                tloc = want_utc + do
                footer += "," + r.choice(["J60/0", "M3.2.0", "100/3"]) + ",J338/" + fmt_hms(tloc)
        elif form == "both-cross":
            # both rule transitions are dated early January with negative times: both land in the previous calendar year
            # (DST lasts only a day or two: the changes are still farther apart than the sum of their sizes)
            t1 = -r.randrange(60, 120) * 3600
            gap = r.randrange(24, 60) * 3600
            footer += ",J1/" + fmt_hms(t1) + ",J1/" + fmt_hms(t1 + gap + save)
        elif form in ("near-allyear", "near-allyear-mirror"):
            # almost permanent DST: like zic's "0/0,J365/25" but with a short standard-time window at the year end;
            # the mirror form ends DST exactly as far *before* midnight as the permanent form ends it after
            if save <= 0:
                continue
            window = 2 * save if form == "near-allyear-mirror" else r.choice([2 * save, 2 * save + 1800, 3 * save, 7200 + save, 86400])
            footer += ",0/0,J365/" + fmt_hms(86400 + save - window)
        elif form == "year-edge":
            # one rule transition crosses the calendar-year boundary: early-January date with a negative time, or a
            # late-December date with a time beyond 24 h; the other rule sits mid-year
            if r.random() < 0.5:
                d1 = r.choice(["J1", "0", "1", "J2", "M1.1.%d" % r.randrange(0, 7)]) + "/" + fmt_hms(-r.randrange(1, 100) * 1800)
            else:
                d1 = r.choice(["J365", "364", "J364", "M12.5.%d" % r.randrange(0, 7)]) + "/" + fmt_hms(r.randrange(49, 330) * 1800)
            d2 = r.choice(["J180", "M7.1.0", "170", "M6.3.2/3"])
            pair = [d1, d2]
            if r.random() < 0.35:
                pair.reverse()  # mostly the crossing rule is the start of DST (a gap when SAVE is positive)
            footer += "," + pair[0] + "," + pair[1]
        else:
            dform = {"M": ["M", "M"], "J": ["J", "J"], "N": ["N", "N"]}.get(form)
            if dform is None:
                dform = [r.choice("MJN"), r.choice("MJN")]
            tform = {"neg-time": ["neg", r.choice(["default", "hour", "neg"])],
                     "big-time": ["big", r.choice(["default", "hour", "big"])],
                     "edge-time": ["edge", r.choice(["edge", "hour"])]}.get(form)
            if tform is None:
                tform = [r.choice(["default", "hour", "any"]), r.choice(["default", "hour", "any"])]
            r.shuffle(tform)
            footer += "," + rnd_date(r, dform[0]) + rnd_time(r, tform[0]) + "," + rnd_date(r, dform[1]) + rnd_time(r, tform[1])
        p = M.Posix(footer)
        if not p.ok:
            raise RuntimeError("generator produced a footer the model rejects: " + footer)
        if form == "allyear":
            if not p.allyear():
                raise RuntimeError("not all-year: " + footer)
        elif form in ("near-allyear", "near-allyear-mirror"):
            if p.allyear() or not footer_ok(p, min_sep=2 * save):
                continue
        elif form == "both-cross":
            if save <= 0 or p.allyear() or not footer_ok(p, min_sep=SPD):
                continue
        else:
            if p.allyear() or not footer_ok(p):
                continue
            south = p.start_of(2001) > p.end_of(2001)
            if form == "south" and not south:
                continue
        used |= u
        return footer, (so, sraw), (do, draw)
    raise RuntimeError("could not generate footer of form " + form)


def gen_S(seed, klass="S"):
    """One synthetic TZif file. Returns (bytes, meta)."""
    r = random.Random("S%s/%d" % (klass, seed))
    form = FOOTER_FORMS[seed % len(FOOTER_FORMS)]
    used = {"LMT"}
    version = r.choice([b"2", b"2", b"3", b"4"])
    footer, std, dst = (None, None, None)
    if form == "v1":
        version = b"\0"
    if form == "many-types":
        footer, std, dst = gen_footer(r, "M", used)
    elif form in ("empty", "v1"):
        so = r.randrange(-14 * 4, 14 * 4 + 1) * 900
        _, sraw = rnd_abbr(r, used)
        std = (so, sraw)
        footer = ""
    else:
        footer, std, dst = gen_footer(r, form, used)
    p = M.Posix(footer) if footer else None
    rules = bool(p and p.dst and not p.allyear())
    # many-types, abbreviation route: the footer's daylight abbreviation is absent from a designation table that is
    # (nearly) full, so the library has to append it at the last index an 8-bit abbreviation index can hold
    abbr_route = form == "many-types" and rules and seed // len(FOOTER_FORMS) % 2 == 1
    types = []
    abbrs = b""
    amap = {}

    def addtype(off, isd, raw, share=False):
        nonlocal abbrs
        if raw not in amap and share:
            # zic stores a designation that is the tail of another one inside it ("AHST\0" also serves "HST")
            enc = raw.encode("latin1") + b"\0"
            k = abbrs.find(enc)
            if k >= 0:
                amap[raw] = k
        if raw not in amap:
            amap[raw] = len(abbrs)
            abbrs += raw.encode("latin1") + b"\0"
        t = (off, isd, amap[raw])
        if t not in types:
            types.append(t)
        return types.index(t)

    lmt = addtype(r.randrange(-50000, 50000), 0, "LMT")
    si = addtype(std[0], 0, std[1])
    di = addtype(dst[0], 1, dst[1]) if dst and not abbr_route else None
    extra = []
    for _ in range(r.randrange(0, 4)):
        _, raw = rnd_abbr(r, used)
        extra.append(addtype(r.randrange(-14 * 4, 14 * 4 + 1) * 900, 1 if r.random() < 0.3 else 0, raw))
    variant = None
    if r.random() < 0.15 and dst:
        # isdst-only / abbreviation-only variants of an existing type; the new designation is unrelated to the old one,
        # extends it, is its beginning, or is its tail (then stored inside it)
        _, raw = rnd_abbr(r, used)
        k = r.randrange(0, 4)
        share = False
        if k == 1 and std[1] + "X" not in used:
            raw = std[1] + "X"
        elif k == 2 and len(std[1]) >= 4 and std[1][:-1] not in used:
            raw = std[1][:-1]
        elif k == 3 and len(std[1]) >= 4 and std[1][1:] not in used:
            raw = std[1][1:]
            share = True
        used.add(raw)
        variant = addtype(std[0], 0, raw, share)
        extra.append(variant)
        extra.append(addtype(std[0], 1, std[1]) if (std[0], 1, amap[std[1]]) not in types else si)
    if abbr_route:
        want = r.choice([255, 255, 255, 254, 250])
        k = 0
        while want - len(abbrs) >= 9:
            k += 1
            extra.append(addtype(-40000 + 911 * k, k & 1, chr(65 + k // 26) + chr(65 + k % 26) + "ZQ"))
        if want - len(abbrs) >= 4:
            extra.append(addtype(-40000 + 911 * (k + 1), 0, "Q" * (want - len(abbrs) - 1)))
    elif form == "many-types":
        # fill the type table to just below / at its 8-bit limit (256 types, counting one the library may have to create); the footer's daylight type may be absent from it
        target = r.choice([255, 256, 257, 257, 257])
        k = 0
        while len(types) < target - 1 and k < 4000:
            k += 1
            extra.append(addtype(-43200 + 337 * k, k & 1, r.choice(["LMT", std[1]])))
        extra = list(dict.fromkeys(extra))
    packed = []
    if form != "many-types" and version != b"\0" and r.random() < 0.25:
        # type pairs that differ in exactly one attribute by a power of two (hazards for comparisons done on packed or
        # narrowed fields): (a) same flag and designation, offsets 2^n apart; (b) same offset, opposite flags,
        # designation indices exactly 2^m apart (an unused filler designation provides the distance)
        if r.random() < 0.5:
            n = r.choice([8, 12, 15, 16])
            oa = r.randrange(-86399 + (1 << n), 86400)
            ta = addtype(oa, 0, "PKA")
            tb = addtype(oa - (1 << n), 0, "PKA")
            packed = [ta, tb, ta]
        elif len(abbrs) < 100:
            mexp = r.choice([5, 6, 7])
            o = r.randrange(-14 * 4, 14 * 4 + 1) * 900
            flip = r.randrange(0, 2)
            k = len(abbrs)
            t1 = addtype(o, flip, "PKS")
            abbrs += b"Q" * ((1 << mexp) - 5) + b"\0"
            assert len(abbrs) == k + (1 << mexp)
            t2 = addtype(o, 1 - flip, "PKD")
            packed = [t1, t2, t1]
    if klass in ("S", "S-dst0"):
        Y0 = r.choice([r.randrange(1850, 2200), r.randrange(1800, 3000), 2037, 2007, r.randrange(1970, 2040)])
    elif klass == "S-early":
        Y0 = r.randrange(1572, 1799)
    else:
        Y0 = r.choice([r.randrange(-2000, 1568), r.randrange(1, 1568), r.randrange(1000, 1568)])
    j = M.days_from_civil(Y0, 1, 1) * SPD
    if rules:
        a = (p.start_of(Y0), di)
        b = (p.end_of(Y0), si)
        tl = r.choice([a, b])
        if abbr_route or (form == "many-types" and r.random() < 0.6):
            tl = b
        elif r.random() < 0.25:
            # the body ends at an arbitrary instant (a zone-line change in zic terms), with the type the footer assigns there
            t_end = j + r.choice([r.randrange(0, 365 * SPD), r.randrange(0, 3 * SPD), r.randrange(360 * SPD, 366 * SPD), 0])
            tl = (t_end, di if p.lookup(t_end)[1] else si)
        pool = [x for x in [lmt, si, di] + extra if x is not None]
    elif p and p.dst:  # all-year DST: the last transition enters permanent DST
        tl = (j + r.randrange(0, 365 * SPD), di)
        pool = [lmt, si, di] + extra
    else:
        tl = (j + r.randrange(0, 365 * SPD), si)
        pool = [lmt, si] + extra
    omit = None
    if rules and not abbr_route and (form in ("many-types", "both-cross") or r.random() < 0.2):
        # one of the footer's two types does not occur in the body (zic -b slim does that to the daylight type when the
        # table stops before the first daylight period); the library has to create it from the footer
        omit = di if tl[1] == si else si
        pool = [x for x in pool if x != omit]
    n = r.choice([0, 1, 2, r.randrange(0, 12), r.randrange(0, 40)])
    times = []
    t = tl[0]
    for _ in range(n):
        t -= r.choice([r.randrange(3 * SPD, 400 * SPD), r.randrange(3 * SPD, 30 * SPD), r.randrange(300 * SPD, 30000 * SPD)])
        times.append(t)
    times = times[::-1]
    trans = []
    prev = lmt
    for t in times:
        ty = prev if r.random() < 0.1 else r.choice(pool)  # 10% no-op entries
        trans.append((t, ty))
        prev = ty
    trans.append(tl)
    if packed:
        t2 = trans[0][0] - r.randrange(20, 400) * SPD
        t1 = t2 - r.randrange(20, 400) * SPD
        t0 = t1 - r.randrange(20, 400) * SPD
        trans = [(t0, packed[0]), (t1, packed[1]), (t2, packed[2])] + trans
    if variant is not None and r.random() < 0.8:
        # make sure the abbreviation-only change happens, in both directions
        t2 = trans[0][0] - r.randrange(20, 400) * SPD
        t1 = t2 - r.randrange(20, 400) * SPD
        t0 = t1 - r.randrange(20, 400) * SPD
        trans = [(t0, si), (t1, variant), (t2, si)] + trans
    if r.random() < 0.15:
        trans = [(-2 ** 59, lmt)] + [x for x in trans if x[0] > -2 ** 59 + 3 * SPD]
    if omit is not None and all(ty != omit for _, ty in trans):
        types.pop(omit)
        trans = [(t, ty - 1 if ty > omit else ty) for t, ty in trans]
        lmt = lmt - 1 if lmt > omit else lmt
    else:
        omit = None
    if version == b"\0":
        # v1-only: 32-bit data, no footer; keep only what fits and make the last entry standard time
        trans = [x for x in trans if -2 ** 31 <= x[0] < 2 ** 31]
        if trans and r.random() < 0.6:
            # what zic -b fat appends: a no-op entry at the very end of the 32-bit range (and sometimes at its start)
            trans = [x for x in trans if x[0] < 2 ** 31 - 1 - 3 * SPD] + [(2 ** 31 - 1, trans[-1][1])]
            if r.random() < 0.3 and trans[0][0] > -2 ** 31 + 3 * SPD:
                trans = [(-2 ** 31, lmt)] + trans
    dst0 = False
    if klass == "S-dst0":
        # an old-style file: type 0 is a daylight type that the transitions refer to (and, in most, that a 'big bang'
        # entry at -2^59 refers to), so "the type before the first transition" is not simply type 0
        cands = sorted({ty for _, ty in trans if types[ty][1] and ty != 0})
        if cands:
            d = r.choice(cands)
            types[0], types[d] = types[d], types[0]
            sw = {0: d, d: 0}
            trans = [(t, sw.get(ty, ty)) for t, ty in trans]
            if version != b"\0" and trans[0][0] > -2 ** 59 + 3 * SPD and r.random() < 0.7:
                trans = [(-2 ** 59, 0)] + trans
            dst0 = True
    isstd = isut = None
    if r.random() < 0.3:
        isstd = [r.randrange(0, 2) for _ in types]
        isut = [r.randrange(0, 2) if s else 0 for s in isstd]
    dup_type = False
    if form in ("std-only", "allyear") and klass != "S-dst0" and trans and len(types) < 250 and r.random() < 0.6:
        # what zic -b fat writes for rules given in standard time: two types with identical offset, flag and designation
        # that differ only in their standard/wall indicator; the last transition uses the later one, an earlier entry
        # (when there is one of that type) the first
        k = trans[-1][1]
        types.append(types[k])
        trans[-1] = (trans[-1][0], len(types) - 1)
        if isstd is None:
            isstd = [0 for _ in types]
            isut = [0 for _ in types]
        else:
            isstd.append(0)
            isut.append(0)
        isstd[k], isut[k] = 0, 0
        isstd[-1] = 1
        isut[-1] = r.randrange(0, 2)
        dup_type = True
    data = tzif_bytes(trans, types, abbrs, footer, version=version, v1=r.choice(["slim", "fat"]), isstd=isstd, isut=isut)
    return data, dict(form=form, footer=footer, last_year=Y0, ntrans=len(trans), version=version.decode("latin1"),
                      ntypes=len(types), nchars=len(abbrs), abbr_route=abbr_route,
                      omitted=None if omit is None else ("dst" if omit == di else "std"), dst0=dst0, dup_type=dup_type)


# ---------------------------------------------------------------------- zic (Z)
MONTHS = ["Jan", "Feb", "Mar", "Apr", "May", "Jun", "Jul", "Aug", "Sep", "Oct", "Nov", "Dec"]
DAYS = ["Sun", "Mon", "Tue", "Wed", "Thu", "Fri", "Sat"]


def zic_time(v):
    s = "-" if v < 0 else ""
    v = abs(v)
    r = "%s%d:%02d" % (s, v // 3600, (v // 60) % 60)
    if v % 60:
        r += ":%02d" % (v % 60)
    return r


def gen_zic_source(seed):
    """A zic source with one zone 'Z/g<seed>' drawn from a seeded grammar."""
    r = random.Random("Z/%d" % seed)
    form = seed % 10
    lines = []
    name = "g%05d" % seed
    stdoff = r.choice([r.randrange(-12, 15) * 3600, r.randrange(-48, 57) * 900, r.randrange(-43200, 50400)])
    letter_fmt = "".join(r.choice("ABCDEFGHIJKLMNOPQRSTUVWXYZ") for _ in range(2)) + "%sT"
    y_from = r.choice([1990, 1975, 2007, 2030, 1925])

    def on(form_day):
        k = r.random()
        if form_day == "fixed":
            return str(r.randrange(1, 29))
        if k < 0.4:
            return "last" + r.choice(DAYS)
        if k < 0.8:
            return "%s>=%d" % (r.choice(DAYS), r.choice([1, 8, 15, 22, r.randrange(1, 25)]))
        return "%s<=%d" % (r.choice(DAYS), r.randrange(7, 29))

    def at(kind):
        if kind == "neg":
            return zic_time(-r.randrange(1, 48) * 1800)
        if kind == "big":
            return zic_time(r.randrange(49, 140) * 1800)
        suffix = r.choice(["", "", "s", "u", "w"])
        return zic_time(r.choice([0, 3600, 7200, 10800, 1800 * r.randrange(0, 48), r.randrange(0, 86400)])) + suffix

    m1 = r.randrange(0, 12)
    m2 = (m1 + r.randrange(3, 10)) % 12
    save = r.choice([3600, 3600, 1800, 7200, 1200])
    rn = "R%d" % seed
    if form == 0:  # fixed-date rules -> Jn
        lines.append("Rule %s %d max - %s %s %s %s D" % (rn, y_from, MONTHS[m1], on("fixed"), at(""), zic_time(save)))
        lines.append("Rule %s %d max - %s %s %s 0 S" % (rn, y_from, MONTHS[m2], on("fixed"), at("")))
    elif form == 1:  # negative and > 24h AT times -> version 3 footers
        lines.append("Rule %s %d max - %s %s %s %s D" % (rn, y_from, MONTHS[m1], on(""), at("big"), zic_time(save)))
        lines.append("Rule %s %d max - %s %s %s 0 S" % (rn, y_from, MONTHS[m2], on(""), at("neg")))
    elif form == 2:  # negative SAVE
        lines.append("Rule %s %d max - %s %s %s %s W" % (rn, y_from, MONTHS[m1], on(""), at(""), zic_time(-save)))
        lines.append("Rule %s %d max - %s %s %s 0 S" % (rn, y_from, MONTHS[m2], on(""), at("")))
    elif form == 3:  # permanent DST
        lines.append("Rule %s %d only - %s %s %s %s D" % (rn, y_from, MONTHS[m1], on("fixed"), at(""), zic_time(save)))
    else:
        lines.append("Rule %s %d max - %s %s %s %s D" % (rn, y_from, MONTHS[m1], on(""), at(""), zic_time(save)))
        lines.append("Rule %s %d max - %s %s %s 0 S" % (rn, y_from, MONTHS[m2], on(""), at("")))
    if form == 4:  # earlier rule era too
        lines.append("Rule %s %d %d - %s %s 2:00 1:00 D" % (rn, y_from - 30, y_from - 1, MONTHS[(m1 + 1) % 12], on("")))
        lines.append("Rule %s %d %d - %s %s 2:00 0 S" % (rn, y_from - 30, y_from - 1, MONTHS[(m2 + 1) % 12], on("")))
    lmt = r.randrange(-43200, 43200)
    if form == 5:  # multi-line zone with far-future UNTIL
        lines.append("Zone Z/%s %s - LMT %d Jan 1" % (name, zic_time(lmt), r.randrange(1850, 1950)))
        lines.append("   %s %s %s %d %s 1" % (zic_time(stdoff), rn, letter_fmt, r.randrange(2400, 2600), r.choice(MONTHS)))
        lines.append("   %s - XYZ" % zic_time(stdoff + r.choice([-3600, 3600, 1800])))
    elif form == 6:  # far past line
        lines.append("Zone Z/%s %s - LMT %d Jan 1" % (name, zic_time(lmt), r.randrange(1600, 1800)))
        lines.append("   %s - %s %d Jun 1" % (zic_time(stdoff + 1800), "QQT", r.randrange(1900, 1960)))
        lines.append("   %s %s %s" % (zic_time(stdoff), rn, letter_fmt))
    elif form == 7:  # sub-minute STDOFF
        so = stdoff + r.randrange(1, 60)
        lines.append("Zone Z/%s %s - LMT %d Jan 1" % (name, zic_time(lmt), r.randrange(1880, 1960)))
        lines.append("   %s %s %s" % (zic_time(so), rn, "%z" if r.random() < 0.5 else letter_fmt))
    elif form == 8:  # no rules at all: fixed zone / single type
        if r.random() < 0.5:
            lines = ["Zone Z/%s %s - %s" % (name, zic_time(stdoff), "FXT")]
        else:
            lines = ["Zone Z/%s %s - LMT %d Jan 1" % (name, zic_time(lmt), r.randrange(1880, 1960)),
                     "   %s - FXT" % zic_time(stdoff)]
    else:
        lines.append("Zone Z/%s %s - LMT %d Jan 1" % (name, zic_time(lmt), r.randrange(1850, 1960)))
        lines.append("   %s %s %s" % (zic_time(stdoff), rn, letter_fmt))
    return name, "\n".join(lines) + "\n"


def build_Z(outdir, seeds):
    """Compile zic sources (fat and slim). Returns [(cls, name, path)] for those that compiled and pass
    the domain filter."""
    os.makedirs(outdir, exist_ok=True)
    out = []
    for mode in ("fat", "slim"):
        d = os.path.join(outdir, mode)
        os.makedirs(d, exist_ok=True)
        src = os.path.join(outdir, "src-%s.zi" % mode)
        names = []
        with open(src, "w") as f:
            for s in seeds:
                name, text = gen_zic_source(s)
                # compile each zone separately so that one rejected source does not spoil the batch
                one = os.path.join(outdir, "one.zi")
                with open(one, "w") as g:
                    g.write(text)
                rc = subprocess.run([ZIC, "-b", mode, "-d", d, one], stdout=subprocess.PIPE, stderr=subprocess.PIPE)
                f.write(text)
                p = os.path.join(d, "Z", name)
                if rc.returncode == 0 and os.path.exists(p):
                    names.append((name, p))
        for name, p in names:
            if domain_ok(p):
                out.append(("Z", "%s-%s" % (mode, name), p))
    return out


def domain_ok(path, allow_dst0=False):
    """Well-formedness filter shared by Z (zic output) and S: footer parses in the model, rule
    transitions alternate >= 20 days apart, consecutive recorded *real* changes >= 3 days apart,
    type 0 is standard time or unused."""
    try:
        z = M.TZ(open(path, "rb").read())
    except Exception:
        return False
    if z.leap:
        return False
    if z.footer:
        p = z.posix
        if not p.ok:
            return False
        seam_min = 3 * SPD
        if p.dst and not p.allyear() and not footer_ok(p):
            # the near-all-year class: standard time only in a short window at the year end
            near = p.start == (("N", 0), 0) and p.end[0] == ("J", 365) and footer_ok(p, min_sep=2 * abs(p.dst_off - p.std_off))
            # a short DST period: both rules on the same date, at least a day apart
            short = p.start[0] == p.end[0] and footer_ok(p, min_sep=SPD)
            if not near and not short:
                return False
            if short:
                seam_min = SPD
        if p.dst and not p.allyear() and not z.times:
            return False
        # RFC 9636 consistency: the footer evaluated at the last transition yields that transition's type
        if z.times and p.lookup(z.times[-1]) != z.types[z.idx[-1]]:
            return False
        # the first rule transition after the recorded data is >= 3 days after the last recorded one
        # ("offset changes farther apart than the sum of their sizes" also across the seam)
        if z.times and p.dst and not p.allyear():
            last = z.times[-1]
            y = M.civil(last)[0]
            nxt = min(t for yy in (y - 1, y, y + 1, y + 2) for t in (p.start_of(yy), p.end_of(yy)) if t > last)
            if nxt - last < seam_min:
                return False
    if z.types[0][1] and 0 in z.idx and not allow_dst0:
        return False
    prev_t = None
    for t in z.times:
        if prev_t is not None and t - prev_t < 3 * SPD:
            return False
        prev_t = t
    return True


def fixed_oracle_file(off):
    """TZif bytes describing fixed_time_zone(off) for the oracle side."""
    if off == 0 or abs(off) > 86400:
        abbr = "UTC"
        off = 0
    else:
        sign = "-" if off < 0 else "+"
        a = abs(off)
        abbr = "%s%02d" % (sign, a // 3600)
        if a % 3600:
            abbr += "%02d" % ((a // 60) % 60)
        if a % 60:
            abbr += "%02d" % (a % 60)
    footer = "<%s>%s" % (abbr, posix_off(off)) if abs(off) < 86400 * 2 else ""
    # the POSIX grammar tops out at 24 hours, which +-24h just reaches
    return tzif_bytes([], [(off, 0, 0)], abbr.encode() + b"\0", footer, version=b"2")


FIXED_OFFSETS = [1, -1, 59, -59, 60, -60, 1800, -1800, 3600, -3600, 12345, -12345, 14 * 3600, -14 * 3600, 86399, -86399,
                 86400, -86400, 45296, -5 * 3600 - 30 * 60]


def r_zones():
    root = os.path.join(REPO, "testdata", "zoneinfo")
    out = []
    for d, _, fs in os.walk(root):
        for f in fs:
            p = os.path.join(d, f)
            try:
                with open(p, "rb") as fh:
                    if fh.read(4) != b"TZif":
                        continue
            except OSError:
                continue
            out.append(("R", os.path.relpath(p, root), p))
    out.sort()
    return out


def build_corpus(outdir, seed, n_s=120, n_early=12, n_ancient=8, n_z=40, r_sample=None, want_fixed=True, n_dst0=0):
    """Writes files + list.txt under outdir; returns list of (cls, name, path, flags)."""
    os.makedirs(outdir, exist_ok=True)
    rnd = random.Random("corpus/%d" % seed)
    ents = []
    rz = r_zones()
    if r_sample is not None and r_sample < len(rz):
        # always keep a few structurally special zones, sample the rest
        keep = {"America/New_York", "Europe/Dublin", "Australia/Lord_Howe", "Africa/Casablanca", "Asia/Tehran",
                "Pacific/Apia", "America/Nuuk", "Africa/Monrovia", "Asia/Kathmandu", "Etc/GMT+12", "UTC",
                "Europe/Lisbon", "America/Scoresbysund", "Antarctica/Troll", "Asia/Gaza", "Pacific/Chatham"}
        chosen = [z for z in rz if z[1] in keep]
        rest = [z for z in rz if z[1] not in keep]
        rnd.shuffle(rest)
        chosen += rest[:max(0, r_sample - len(chosen))]
        rz = sorted(chosen)
    for cls, name, p in rz:
        ents.append((cls, name, p, "abs"))
    base = seed * 100000
    for klass, n in (("S", n_s), ("S-early", n_early), ("S-ancient", n_ancient), ("S-dst0", n_dst0)):
        d = os.path.join(outdir, klass)
        os.makedirs(d, exist_ok=True)
        i = 0
        made = 0
        per_form = {}
        while made < n and i < n * 20:
            s = base + i
            i += 1
            data, meta = gen_S(s, klass)
            p = os.path.join(d, "s%07d" % s)
            with open(p, "wb") as f:
                f.write(data)
            if not domain_ok(p, allow_dst0=klass == "S-dst0") or (klass == "S-dst0" and not meta["dst0"]):
                os.unlink(p)
                continue
            ents.append((klass, "s%07d-%s" % (s, meta["form"]), p, ""))
            made += 1
            per_form[meta["form"]] = per_form.get(meta["form"], 0) + 1
        if klass == "S" and n >= len(FOOTER_FORMS):
            # every footer form is represented at least three times, whatever the filter rejected above
            while i < n * 60 and any(per_form.get(fm, 0) < 3 for fm in set(FOOTER_FORMS)):
                s = base + i
                i += 1
                if per_form.get(FOOTER_FORMS[s % len(FOOTER_FORMS)], 0) >= 3:
                    continue
                data, meta = gen_S(s, klass)
                p = os.path.join(d, "s%07d" % s)
                with open(p, "wb") as f:
                    f.write(data)
                if not domain_ok(p):
                    os.unlink(p)
                    continue
                ents.append((klass, "s%07d-%s" % (s, meta["form"]), p, ""))
                per_form[meta["form"]] = per_form.get(meta["form"], 0) + 1
    if n_z:
        for cls, name, p in build_Z(os.path.join(outdir, "Z"), [base + i for i in range(n_z)]):
            ents.append((cls, name, p, ""))
    if want_fixed:
        d = os.path.join(outdir, "F")
        os.makedirs(d, exist_ok=True)
        for off in FIXED_OFFSETS:
            p = os.path.join(d, "f%+d" % off)
            with open(p, "wb") as f:
                f.write(fixed_oracle_file(off))
            ents.append(("F", "f%+d" % off, p, "fixed=%d" % off))
    with open(os.path.join(outdir, "list.txt"), "w") as f:
        for e in ents:
            f.write("\t".join(e) + "\n")
    return ents
