"""C01 C02 C03 C06 C10 C11: zone monitors (harness/zonemon.cc) over the generated corpus."""
import os

from . import build, core, corpus

RULES = {
    "C01": "probe = (zone, instant); instants from DESIGN 2.6 (every recorded transition +-{0,1,2,3600,86400}, midpoints, "
           "rule transitions of 400+ years after the seam, 400-year multiples up to the largest that fits, +-2^31/2^59/2^62, "
           "int64 limits, random). Non-trivial = distinct (zone, instant) within one day of a breakpoint, before the first "
           "or after the last recorded transition, or within two days of the int64 limits.",
    "C02": "probe = (zone, civil second); civil seconds are the images of every change under both offsets +-2 s, gap/overlap "
           "midpoints, no-op entries, images of the instant probes, civil_second::min()/max() neighbourhoods, int64 limits "
           "seen through every offset of the zone, random huge years. Non-trivial = expected kind is SKIPPED/REPEATED, or a "
           "field saturates, or the probe is within two days of a change.",
    "C03": "t -> lookup(t).cs -> lookup(cs) for every instant probe in [min+1d, max-1d], and the converse for every civil probe "
           "with unsaturated answers. Non-trivial = probe within a day of a breakpoint / in the rule-generated region, or a "
           "civil probe answered SKIPPED/REPEATED.",
    "C06": "adjacent pairs of the sorted civil probe set of each zone plus dense 1-second sweeps (+-30 min, 7-second stride to "
           "+-3 h) around real changes. Non-trivial = pair within two days of a change or with a saturated result.",
    "C10": "limit-focused probes: instants within two days of int64 min/max, +-2^31, +-2^59, +-2^62 (+-2); civil seconds within "
           "three days of the representable range seen through every offset, civil_second::min()/max() neighbourhoods; "
           "next/prev_transition at the same instants; exactness of the last/first representable civil second. ASan+UBSan "
           "build, reports fatal. Non-trivial = distinct (zone, probe) counted as for C01/C02.",
    "C11": "per zone: full next_transition chain from min() and prev_transition chain from max(), compared with each other and "
           "with the oracle's list of real changes; point queries at every reported instant T, T+-1, midpoints, recorded "
           "no-op entries, limits, random. Non-trivial = chain steps + point queries within 1 s of a reported transition.",
}

ASSUME = [
    "oracle (harness/oracle.h) is an independent reading of TZif + POSIX TZ + the proleptic Gregorian calendar; its calendar "
    "self-test (naive day walk over 800 years) runs at every start",
    "corpus zones satisfy the well-formedness domain of DESIGN.md 2.5 (checked by vlib/corpus.domain_ok)",
    "equality with the oracle is established at the sampled probes only",
]


def corpus_params(tier):
    if tier == "thorough":
        return dict(r_sample=None, n_s=1200, n_early=80, n_ancient=16, n_z=260)
    return dict(r_sample=45, n_s=110, n_early=10, n_ancient=3, n_z=30)


def run(prop, tier, seed, replay=None):
    chk = core.Check(prop, tier, seed, replay)
    chk.assumptions = list(ASSUME)
    try:
        exe = build.build_bin("asan", "zonemon")
    except build.BuildError as e:
        chk.inconclusive_because("build failed: %s" % str(e)[-1500:])
        return chk.finish()
    cdir = os.path.join(chk.workdir, "corpus")
    cp = corpus_params(tier)
    cp["n_dst0"] = 60 if tier == "thorough" else 10
    ents = corpus.build_corpus(cdir, seed, **cp)
    args = ["--zones", os.path.join(cdir, "list.txt"), "--props", prop, "--seed", str(seed), "--tier", tier,
            "--workers", str(core.ncpu()), "--case-timeout", "300"]
    if replay and "case" in replay.get("replay_args", {}):
        args += ["--only-case", str(replay["replay_args"]["case"])]
    env = build.san_env("asan")
    res, rc = core.run_monitor(exe, args, env, os.path.join(chk.workdir, "out"), timeout=3600 if tier == "thorough" else 900)
    # hangs: re-run once alone before believing them
    confirmed = []
    for (case, secs, desc) in res.hangs:
        r2, _ = core.run_monitor(exe, args + ["--only-case", str(case)], env, os.path.join(chk.workdir, "hang%d" % case), timeout=900)
        if r2.hangs:
            confirmed.append((case, secs, desc))
        else:
            chk.inconclusive_because("watchdog fired once for case %d but not on re-run" % case)
    res.hangs = confirmed
    chk.absorb(res, replay_args=dict(monitor="zonemon"))
    ev = res.stat(prop + ".evaluations")
    cov = dict(evaluations=ev, distinct_nontrivial=res.stat(prop + ".distinct_nontrivial"), rule=RULES[prop],
               samples=res.samples.get(prop, [])[:6], zones=res.stat("zones"),
               zones_per_class={k.split("zones.class.")[1]: v for k, v in res.stats.items() if k.startswith("zones.class.")},
               zones_version1=res.stat("zones.version1"), zones_with_rule_footer=res.stat("zones.with_rule_footer"),
               zones_with_allyear_dst_footer=res.stat("zones.with_allyear_dst_footer"),
               build_flavour="asan (g++ -fsanitize=address,undefined -fno-sanitize-recover=all, asserts live)",
               sanitizer_reports=len(res.crashes))
    for k, v in sorted(res.stats.items()):
        if k.startswith(prop + ".") and k.split(".", 1)[1] not in ("evaluations", "distinct_nontrivial"):
            cov[k.split(".", 1)[1]] = v
    chk.coverage = cov
    if prop == "C01" and tier == "thorough" and not replay:
        # oracle validation against two foreign implementations (DESIGN.md 2.4): a disagreement is a harness failure
        import subprocess
        import sys
        tool = os.path.join(core.VERIF, "tools", "oracle_validate.py")
        try:
            p = subprocess.run([sys.executable, tool, "--seed", str(seed)], stdout=subprocess.PIPE, stderr=subprocess.STDOUT, text=True, timeout=3600)
            tail = [ln for ln in p.stdout.splitlines() if ln.startswith(("zoneinfo:", "glibc:", "ORACLE-"))]
            cov["oracle_validation"] = tail
            if p.returncode != 0:
                chk.inconclusive_because("oracle validation failed: %s" % "; ".join(p.stdout.splitlines()[-6:]))
        except subprocess.TimeoutExpired:
            chk.inconclusive_because("oracle validation timed out")
    # a monitor that observed nothing is inconclusive
    if not replay:
        need = {"C01": ["C01.region.recorded", "C01.region.rule-cycle", "C01.region.shifted", "C01.region.before-first"],
                "C02": ["C02.kind.UNIQUE", "C02.kind.SKIPPED", "C02.kind.REPEATED", "C02.saturated_cases"],
                "C03": ["C03.repeated_roundtrips", "C03.converse_checks"],
                "C06": ["C06.dense_sweeps"],
                "C10": ["C10.exactness_checks", "C10.transition_queries_at_limits", "C10.saturated_cases"],
                "C11": ["C11.chain_steps", "C11.point_queries", "C11.zones_with_noop_entries",
                        "C11.zones_with_bigbang_entry", "C11.zones_without_transitions"]}[prop]
        for k in need:
            if res.stat(k) == 0:
                chk.inconclusive_because("monitor observed no '%s' events" % k)
        if ev == 0:
            chk.inconclusive_because("no evaluations")
        if prop != "C01" and res.stat("zones_load_failed"):
            chk.inconclusive_because("%d corpus zones failed to load (C01 reports that); this property was not observed on them" % res.stat("zones_load_failed"))
    return chk.finish()
