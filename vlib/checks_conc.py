"""C13 (race freedom, schedule independence) and C20 (factory contract): harness/concmon.cc.
Stress runs under ThreadSanitizer (C13) and ASan (C20); enumerated schedules at hook granularity under ASan."""
import glob
import os
import re

from . import build, core, corpus

RULES = {
    "C13": "(1) stress: rounds x k in {2,4,8,16,64} threads released together, each running 60 seeded operations over 15 fresh "
           "names per round (two aliases of each of 4 zones, invalid, garbage, fixed-offset, UTC) mixed with lookups, "
           "conversions, transition scans, format and parse on 4 zones shared by all threads, local/utc/fixed_time_zone; yields "
           "and sleeps between calls and inside the data-source factory (between the loader's critical sections); every answer "
           "compared with the single-threaded answer, all loads of one name compared for equality; built with "
           "-fsanitize=thread, reports counted from the log; the monitor adds no locking on these paths (thread-local logs, "
           "relaxed atomics). (1c) hint hammer: 2-8 threads share ONE zone object, each staying in its own stretch of the transition "
           "table, 60k-400k lookup(t)+lookup(cs) each in a tight loop (TSan and ASan builds), every answer compared with the "
           "single-threaded one. (1a) cold start: fresh processes whose very first cctz calls (utc/fixed/local/default zone, a load) "
           "are made concurrently by 2-16 threads under TSan (function-local statics, lazily created map). (2) enumerated schedules: programs of 2-3 (thorough: 4) loader threads with overlapping names, "
           "parked at the load hook points (entry, cache miss, before the load lock, inside the factory, before insert) and "
           "stepped one at a time by a stateless DFS over all orders; non-trivial = distinct schedule string / stress round.",
    "C20": "the factory's own event log (enter/exit/read with thread id and a global sequence number, load_time_zone begin/end "
           "recorded by the caller) from (1) stress rounds with k in {2,4,8,16,64} threads loading overlapping fresh names and "
           "(2) every enumerated schedule of 2-3 (thorough: 4) loader threads held inside the factory in every order, followed "
           "by repeat loads; offline checker: entry on a thread without an open load of that name, second entry for a name, "
           "entry while another is open, entry for UTC/fixed names. Non-trivial = distinct schedule string / stress round.",
}


def tsan_reports(outdir):
    """-> list of (key, text) for reports whose stacks include a repository frame."""
    out = []
    other = 0
    for p in glob.glob(os.path.join(outdir, "tsan.*")):
        with open(p, errors="replace") as f:
            text = f.read()
        for blk in re.split(r"={18}\n", text):
            m = re.search(r"WARNING: ThreadSanitizer: ([^\n(]+)", blk)
            if not m:
                continue
            kind = m.group(1).strip().replace(" ", "-")
            fns = []
            for fm in re.finditer(r"#\d+ ([^\n]+?) (%s[^\s:]+):(\d+)" % re.escape(build.REPO.rstrip("/") + "/"), blk):
                fn = re.sub(r"\(.*", "", fm.group(1)).strip().split("::")[-1]
                if fn not in fns:
                    fns.append(fn)
            if not fns:
                other += 1
                continue
            out.append(("tsan:%s:%s" % (kind, "+".join(sorted(fns[:2]))), blk[:3000]))
    return out, other


def run(prop, tier, seed, replay=None):
    chk = core.Check(prop, tier, seed, replay)
    chk.assumptions = ["schedules are enumerated at hook granularity (critical sections of LoadTimeZone), not instruction granularity",
                       "ThreadSanitizer covers the finer grain only for interleavings that actually occurred in the stress runs",
                       "helgrind is not used: the relaxed std::atomic hints would be reported as false races"]
    try:
        exe_t = build.build_bin("tsan", "concmon", libs=("-ldl",))
        exe_a = build.build_bin("asan", "concmon")
    except build.BuildError as e:
        chk.inconclusive_because("build failed: %s" % str(e)[-1500:])
        return chk.finish()
    cdir = os.path.join(chk.workdir, "corpus")
    corpus.build_corpus(cdir, seed, r_sample=16, n_s=10, n_early=0, n_ancient=0, n_z=0, want_fixed=False)
    zones = os.path.join(cdir, "list.txt")
    thorough = tier == "thorough"
    rounds = 400 if thorough else 24
    ra = replay.get("replay_args", {}) if replay else {}
    total = core.Results()
    # (1) stress under TSan
    out_t = os.path.join(chk.workdir, "stress-tsan")
    os.makedirs(out_t, exist_ok=True)
    env = build.san_env("tsan", log_path=os.path.join(out_t, "tsan"))
    args = ["--mode", "stress", "--zones", zones, "--seed", str(seed), "--rounds", str(rounds), "--workers", "4", "--case-timeout", "600"]
    if ra.get("leg") == "stress-tsan" and "case" in ra:
        args += ["--only-case", str(ra["case"])]
    legs = []
    if not ra or ra.get("leg") == "stress-tsan":
        res, rc = core.run_monitor(exe_t, args, env, out_t, timeout=7200 if thorough else 1200)
        legs.append(("stress-tsan", res))
        reps, other = tsan_reports(out_t)
        for key, text in reps:
            if prop == "C13":
                chk.violation(key, text, replay_args=dict(leg="stress-tsan"))
        if other:
            chk.coverage_other_tsan = other
    # (1a) cold start under TSan: first cctz calls of a fresh process made concurrently
    if prop == "C13" and (not ra or ra.get("leg") == "cold-tsan"):
        out_c = os.path.join(chk.workdir, "cold-tsan")
        os.makedirs(out_c, exist_ok=True)
        envc = build.san_env("tsan", log_path=os.path.join(out_c, "tsan"))
        args_c = ["--mode", "cold", "--zones", zones, "--seed", str(seed), "--rounds", "2000" if thorough else "150", "--workers", "4", "--case-timeout", "300"]
        if ra.get("leg") == "cold-tsan" and "case" in ra:
            args_c += ["--only-case", str(ra["case"])]
        res, rc = core.run_monitor(exe_t, args_c, envc, out_c, timeout=7200 if thorough else 1200)
        legs.append(("cold-tsan", res))
        reps, other = tsan_reports(out_c)
        for key, text in reps:
            chk.violation(key + ":cold-start", text, replay_args=dict(leg="cold-tsan"))
    # (1c) hint hammer: threads sharing one zone object, each in its own stretch of the table, answers compared with
    # single-threaded ones (TSan build for the race detector, ASan build for speed and different timing)
    if prop == "C13":
        for leg, exe_h, flav, iters in (("hammer-tsan", exe_t, "tsan", 400000 if thorough else 60000),
                                        ("hammer-asan", exe_a, "asan", 3000000 if thorough else 400000)):
            if ra and ra.get("leg") != leg:
                continue
            out_h = os.path.join(chk.workdir, leg)
            os.makedirs(out_h, exist_ok=True)
            envh = build.san_env(flav, log_path=os.path.join(out_h, "tsan")) if flav == "tsan" else build.san_env(flav)
            args_h = ["--mode", "hammer", "--zones", zones, "--seed", str(seed), "--rounds", "48" if thorough else "12", "--iters", str(iters),
                      "--workers", "2", "--case-timeout", "900"]
            if ra.get("leg") == leg and "case" in ra:
                args_h += ["--only-case", str(ra["case"])]
            res, rc = core.run_monitor(exe_h, args_h, envh, out_h, timeout=7200 if thorough else 1500)
            legs.append((leg, res))
            if flav == "tsan":
                reps, other = tsan_reports(out_h)
                for key, text in reps:
                    chk.violation(key + ":hint-hammer", text, replay_args=dict(leg=leg))
    # (1d) use during process exit (ASan build): workers keep using zones while main runs exit()
    if prop == "C13" and (not ra or ra.get("leg") == "exit-asan"):
        out_e = os.path.join(chk.workdir, "exit-asan")
        args_e = ["--mode", "exit", "--zones", zones, "--seed", str(seed), "--rounds", "200" if thorough else "24", "--workers", "4", "--case-timeout", "300"]
        if ra.get("leg") == "exit-asan" and "case" in ra:
            args_e += ["--only-case", str(ra["case"])]
        res, rc = core.run_monitor(exe_a, args_e, build.san_env("asan"), out_e, timeout=3600 if thorough else 900)
        legs.append(("exit-asan", res))
    # (1e) a zone source that takes seconds: waiting loaders neither enter it nor give up
    if not ra or ra.get("leg") == "slow-asan":
        out_w = os.path.join(chk.workdir, "slow-asan")
        args_w = ["--mode", "slow", "--zones", zones, "--seed", str(seed), "--hold-ms", "25000" if thorough else "6000", "--workers", "2", "--case-timeout", "300"]
        res, rc = core.run_monitor(exe_a, args_w, build.san_env("asan"), out_w, timeout=900)
        legs.append(("slow-asan", res))
    # (1b) stress under ASan (C20's log checker does not need TSan; different timing)
    if prop == "C20" and (not ra or ra.get("leg") == "stress-asan"):
        out_a = os.path.join(chk.workdir, "stress-asan")
        args_a = ["--mode", "stress", "--zones", zones, "--seed", str(seed + 1000), "--rounds", str(rounds), "--workers", "4", "--case-timeout", "600"]
        if ra.get("leg") == "stress-asan" and "case" in ra:
            args_a += ["--only-case", str(ra["case"])]
        res, rc = core.run_monitor(exe_a, args_a, build.san_env("asan"), out_a, timeout=7200 if thorough else 1200)
        legs.append(("stress-asan", res))
    # (2) enumerated schedules
    if not ra or ra.get("leg") == "sched":
        out_s = os.path.join(chk.workdir, "sched")
        args_s = ["--mode", "sched", "--zones", zones, "--seed", str(seed), "--kmax", "4" if thorough else "3", "--max-schedules",
                  "60000" if thorough else "2500", "--workers", str(core.ncpu()), "--case-timeout", "1800"]
        if ra.get("leg") == "sched" and "case" in ra:
            args_s += ["--only-case", str(ra["case"])]
        res, rc = core.run_monitor(exe_a, args_s, build.san_env("asan"), out_s, timeout=10800 if thorough else 1500)
        legs.append(("sched", res))
    # (3) a waiter held before the load lock is overtaken by N first-time loads (N around powers of two)
    if prop == "C20" and (not ra or ra.get("leg") == "overtake"):
        out_o = os.path.join(chk.workdir, "overtake")
        args_o = ["--mode", "overtake", "--zones", zones, "--seed", str(seed), "--tier", tier, "--workers", str(core.ncpu()), "--case-timeout", "1800"]
        if ra.get("leg") == "overtake" and "case" in ra:
            args_o += ["--only-case", str(ra["case"])]
        res, rc = core.run_monitor(exe_a, args_o, build.san_env("asan"), out_o, timeout=7200 if thorough else 1500)
        legs.append(("overtake", res))
    cov = dict(rule=RULES[prop], samples=[], evaluations=0, distinct_nontrivial=0, legs=[l for l, _ in legs])
    for leg, res in legs:
        confirmed = []
        for h in res.hangs:
            confirmed.append(h)  # a watchdog firing in a concurrency run is a potential deadlock; reported as hang:<class>
        res.hangs = confirmed
        chk.absorb(res, props=[prop], replay_args=dict(leg=leg))
        cov["evaluations"] += res.stat(prop + ".evaluations")
        cov["distinct_nontrivial"] += res.stat(prop + ".distinct_nontrivial")
        cov["samples"] += res.samples.get(prop, [])[:2]
        for k, v in sorted(res.stats.items()):
            if k.startswith(prop + ".") and k.split(".", 1)[1] not in ("evaluations", "distinct_nontrivial"):
                cov[leg + "." + k.split(".", 1)[1]] = v
        total.stats.update({leg + ":" + k: v for k, v in res.stats.items()})
    cov["tsan_build_confirmed"] = bool(total.stat("stress-tsan:C13.rounds_under_tsan"))
    cov["tsan_reports_outside_repo"] = getattr(chk, "coverage_other_tsan", 0)
    chk.coverage = cov
    if not replay:
        if prop == "C13":
            if not total.stat("stress-tsan:C13.rounds_under_tsan"):
                chk.inconclusive_because("stress leg did not run under ThreadSanitizer")
            if not total.stat("stress-tsan:C13.first_load_races_observed"):
                chk.inconclusive_because("no first-load race (>= 2 loaders in the miss window) was observed")
            if not total.stat("sched:C13.distinct_schedules"):
                chk.inconclusive_because("no schedules enumerated")
            if not total.stat("exit-asan:C13.exit_rounds"):
                chk.inconclusive_because("exit leg observed nothing")
            if not total.stat("hammer-tsan:C13.hammer_lookups") or not total.stat("hammer-asan:C13.hammer_lookups"):
                chk.inconclusive_because("hint hammer observed nothing")
        else:
            if not total.stat("sched:C20.factory_invocations") or not total.stat("stress-asan:C20.factory_invocations"):
                chk.inconclusive_because("factory log empty")
            if not total.stat("overtake:C20.overtake_cases_realised_as_planned"):
                chk.inconclusive_because("no overtake schedule was realised as planned")
    return chk.finish()
