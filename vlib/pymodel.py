"""Python twin of harness/oracle.h (calendar, TZif reader, POSIX-TZ parser/evaluator).
Used by the corpus generator (domain filters), the environment model of C19 and the oracle
cross-validation. Independent of cctz."""
import bisect
import struct

SPD = 86400


def isleap(y):
    return y % 4 == 0 and (y % 100 != 0 or y % 400 == 0)


CUM = [[0, 31, 59, 90, 120, 151, 181, 212, 243, 273, 304, 334, 365],
       [0, 31, 60, 91, 121, 152, 182, 213, 244, 274, 305, 335, 366]]


def days_before_year(y):
    p = y - 1
    return 365 * p + p // 4 - p // 100 + p // 400 - 719162


def days_from_civil(y, m, d):
    return days_before_year(y) + CUM[isleap(y)][m - 1] + d - 1


def civil_from_days(z):
    n = z + 719162
    q400, r = divmod(n, 146097)
    c = min(r // 36524, 3)
    r -= c * 36524
    q4 = min(r // 1461, 24)
    r -= q4 * 1461
    y1 = min(r // 365, 3)
    r -= y1 * 365
    y = 1 + q400 * 400 + c * 100 + q4 * 4 + y1
    cum = CUM[isleap(y)]
    m = 1
    while cum[m] <= r:
        m += 1
    return (y, m, r - cum[m - 1] + 1)


def civil(t):
    dd, s = divmod(t, SPD)
    y, m, d = civil_from_days(dd)
    return (y, m, d, s // 3600, (s // 60) % 60, s % 60)


def secs(cs):
    y, m, d, H, M, S = cs
    return days_from_civil(y, m, d) * SPD + H * 3600 + M * 60 + S


def weekday(y, m, d):
    return (days_from_civil(y, m, d) + 4) % 7  # 0 = Sunday


class Posix:
    def __init__(s, spec):
        s.ok = False
        s.dst = False
        s.spec = spec
        p = [0]
        b = spec

        def abbr():
            i = p[0]
            if i < len(b) and b[i] == "<":
                j = b.find(">", i)
                if j < 0:
                    raise ValueError
                p[0] = j + 1
                return b[i + 1:j]
            j = i
            while j < len(b) and b[j] not in "-+,0123456789":
                j += 1
            if j - i < 3:
                raise ValueError
            p[0] = j
            return b[i:j]

        def num(lo, hi):
            i = p[0]
            j = i
            while j < len(b) and b[j] in "0123456789":
                j += 1
            if j == i:
                raise ValueError
            v = int(b[i:j])
            if v < lo or v > hi:
                raise ValueError
            p[0] = j
            return v

        def off(lo, hi, sign):
            if p[0] < len(b) and b[p[0]] in "+-":
                if b[p[0]] == "-":
                    sign = -sign
                p[0] += 1
            h = num(lo, hi)
            m = s_ = 0
            if p[0] < len(b) and b[p[0]] == ":":
                p[0] += 1
                m = num(0, 59)
                if p[0] < len(b) and b[p[0]] == ":":
                    p[0] += 1
                    s_ = num(0, 59)
            return sign * (h * 3600 + m * 60 + s_)

        def dt():
            if not (p[0] < len(b) and b[p[0]] == ","):
                raise ValueError
            p[0] += 1
            if p[0] < len(b) and b[p[0]] == "M":
                p[0] += 1
                mo = num(1, 12)
                if b[p[0]:p[0] + 1] != ".":
                    raise ValueError
                p[0] += 1
                w = num(1, 5)
                if b[p[0]:p[0] + 1] != ".":
                    raise ValueError
                p[0] += 1
                wd = num(0, 6)
                date = ("M", mo, w, wd)
            elif p[0] < len(b) and b[p[0]] == "J":
                p[0] += 1
                date = ("J", num(1, 365))
            else:
                date = ("N", num(0, 365))
            t = 7200
            if p[0] < len(b) and b[p[0]] == "/":
                p[0] += 1
                t = off(0, 167, 1)
            return (date, t)

        try:
            if spec.startswith(":"):
                raise ValueError
            s.std_abbr = abbr()
            s.std_off = off(0, 24, -1)
            if p[0] < len(b):
                s.dst_abbr = abbr()
                s.dst_off = s.std_off + 3600
                if b[p[0]:p[0] + 1] != ",":
                    s.dst_off = off(0, 24, -1)
                s.start = dt()
                s.end = dt()
                if p[0] != len(b):
                    raise ValueError
                s.dst = bool(s.dst_abbr)
            s.ok = True
        except (ValueError, IndexError):
            s.ok = False

    def rule_off(s, y, r):
        (date, t) = r
        leap = isleap(y)
        if date[0] == "J":
            d = date[1] - 1
            if leap and date[1] >= 60:
                d += 1
        elif date[0] == "N":
            d = date[1]
        else:
            _, mo, w, wd = date
            first = CUM[leap][mo - 1]
            fw = weekday(y, mo, 1)
            dom = 1 + (wd - fw) % 7 + (w - 1) * 7
            mdays = CUM[leap][mo] - CUM[leap][mo - 1]
            while dom > mdays:
                dom -= 7
            d = first + dom - 1
        return d * SPD + t

    def start_of(s, y):
        return days_from_civil(y, 1, 1) * SPD + s.rule_off(y, s.start) - s.std_off

    def end_of(s, y):
        return days_from_civil(y, 1, 1) * SPD + s.rule_off(y, s.end) - s.dst_off

    def allyear(s):
        if not s.dst:
            return False
        return all(s.end_of(y) == s.start_of(y + 1) for y in range(1999, 1999 + 400))

    def lookup(s, t):
        if not s.dst:
            return (s.std_off, 0, s.std_abbr)
        if s.allyear():
            return (s.dst_off, 1, s.dst_abbr)
        y = civil(t + s.std_off)[0]
        ev = []
        for yy in (y - 1, y, y + 1):
            ev.append((s.end_of(yy), 0))
            ev.append((s.start_of(yy), 1))
        ev.sort()
        k = 0
        for (tt, kind) in ev:
            if tt <= t:
                k = kind
        return (s.dst_off, 1, s.dst_abbr) if k == 1 else (s.std_off, 0, s.std_abbr)


class TZ:
    """Raises on malformed input."""

    def __init__(s, data):
        def block(off, tl):
            if data[off:off + 4] != b"TZif":
                raise ValueError("magic")
            ver = data[off + 4:off + 5]
            utc, std, leap, tc, ty, ch = struct.unpack(">6l", data[off + 20:off + 44])
            if min(utc, std, leap, tc, ty, ch) < 0:
                raise ValueError("negative count")
            o = off + 44
            need = tc * (tl + 1) + ty * 6 + ch + leap * (tl + 4) + std + utc
            if o + need > len(data):
                raise ValueError("short")
            times = list(struct.unpack(">%d%s" % (tc, "l" if tl == 4 else "q"), data[o:o + tc * tl]))
            o += tc * tl
            idx = list(data[o:o + tc])
            o += tc
            types = [struct.unpack(">lBB", data[o + 6 * i:o + 6 * i + 6]) for i in range(ty)]
            o += 6 * ty
            ab = data[o:o + ch]
            o += ch
            o += leap * (tl + 4) + std + utc
            return ver, times, idx, types, ab, o, leap
        ver, times, idx, types, ab, o, leap = block(0, 4)
        s.version_byte = ver
        s.footer = ""
        if ver != b"\0":
            ver, times, idx, types, ab, o, leap = block(o, 8)
            if data[o:o + 1] != b"\n":
                raise ValueError("footer NL")
            e = data.index(b"\n", o + 1)
            s.footer = data[o + 1:e].decode("latin1")
        if not types:
            raise ValueError("no types")
        s.times = times
        s.idx = idx
        s.leap = leap
        for (u, d, a) in types:
            if a >= len(ab):
                raise ValueError("abbr index")
        for i in idx:
            if i >= len(types):
                raise ValueError("type index")

        def ab_at(a):
            e = ab.find(b"\0", a)
            if e < 0:
                e = len(ab)
            return ab[a:e].decode("latin1")
        s.types = [(u, 1 if d else 0, ab_at(a)) for (u, d, a) in types]
        s.raw_types = types
        s.posix = Posix(s.footer) if s.footer else None

    def lookup(s, t):
        if not s.times:
            return s.posix.lookup(t) if (s.posix and s.posix.ok) else s.types[0]
        if t < s.times[0]:
            return s.types[0]
        if t >= s.times[-1] and s.posix and s.posix.ok:
            return s.posix.lookup(t)
        i = bisect.bisect_right(s.times, t) - 1
        return s.types[s.idx[i]]
