"""C07 C08 C09 C18: format/parse monitors (harness/fmtmon.cc, oracle harness/fmtmodel.h)."""
import os

from . import build, core, corpus

RULES = {
    "C07": "case = (zone, instant, femtoseconds, lossless format, parse zone): formats from date part x time part x offset part "
           "(13 x 10 x 6 forms incl. week-number and month-name dates, %E4Y within its range, %I/%l with %p, %s) in four "
           "orders; zones from all corpus classes incl. fixed +-24h; instants at int64 limits, year 0/1 and 9999/10000 "
           "boundaries, negative years, recorded transitions; %z/%Ez/%:z only where the offset has no seconds. "
           "Non-trivial = distinct (format, instant, femtoseconds).",
    "C08": "(a) well-formed formats: 1-12 tokens from {literals incl. bytes >= 0x80, 24 library specifiers, %E<n>S/%E<n>f with n up "
           "to 30, 44 strftime specifiers incl. %E/%O variants}; expected text = concatenation of per-token renderings from "
           "lookup() fields (library tokens by the documented rules, others by the oracle's own strftime call); year-dependent "
           "strftime tokens only where the year fits tm_year; glibc flag/width tokens; strftime's own %Z variants (%EZ %OZ %^Z %#Z "
           "%Oz) with the process zone set to XST5XDT so that tm_isdst is observable; NUL in the literal text of formats "
           "without delegated tokens; every eighth format used twice in a row for a sibling instant; (b) malformed formats: dangling %, %E, %E*, %:, %::, %E + up to 400 "
           "digits, runs of %, arbitrary bytes, embedded NUL - sanitizers only, plus literal pass-through for %-free formats. "
           "Non-trivial = distinct (format, instant, femtoseconds).",
    "C09": "(a) model-checked pairs: format of 1-9 tokens (library specifiers, literals, whitespace, %U %W %u %w) with a canonical "
           "input built from chosen fields (years incl. int64 limits, fields pushed just outside their ranges, %E4Y of 3/5 chars, "
           "%s at the limits, one-digit offset fields, over-long fractions) and a single-character insert/delete/replace; zone-read "
           "civil times resolved through O-ZONE ('pre' reading, skipped/repeated included); both directions of acceptance and the "
           "instant compared; (b) random/malformed (format, input) pairs incl. formatted instants with byte edits - sanitizers only. "
           "Non-trivial = distinct (format, input).",
    "C18": "19 duration types (three of them - 3/2 s, 2/3 s and 1001/30000 s ticks - for the whole second only; int64 ns/us/ms/s, int32 min/h/s, int64 min/h (std::chrono::minutes/hours) and 7-second ticks, int8/int16 s and min, ratio<1,3>, femtoseconds): every remainder "
           "class within +-3 ticks/seconds of multiples of one second near the epoch, limits of each representation +-100, random "
           "and negative non-multiples, in UTC and two fixed zones; lookup/convert/format fraction fields vs exact rational floor in "
           "128-bit; parse-back into the same type; parse at each coarse type's limits must floor or fail, never wrap. "
           "Non-trivial = distinct (type, count).",
}


def run(prop, tier, seed, replay=None):
    chk = core.Check(prop, tier, seed, replay)
    chk.assumptions = ["locale fixed to \"C\", TZ=UTC for the process; strftime/strptime of this glibc are the reference for delegated specifiers",
                       "O-FMT (harness/fmtmodel.h) encodes the documentation of include/cctz/time_zone.h; formats outside the model are counted and skipped"]
    try:
        exe = build.build_bin("asan", "fmtmon")
    except build.BuildError as e:
        chk.inconclusive_because("build failed: %s" % str(e)[-1500:])
        return chk.finish()
    cdir = os.path.join(chk.workdir, "corpus")
    if tier == "thorough":
        corpus.build_corpus(cdir, seed, r_sample=None, n_s=300, n_early=20, n_ancient=0, n_z=80)
    else:
        corpus.build_corpus(cdir, seed, r_sample=60, n_s=80, n_early=6, n_ancient=0, n_z=20)
    args = ["--prop", prop, "--zones", os.path.join(cdir, "list.txt"), "--seed", str(seed), "--tier", tier, "--workers", str(core.ncpu()),
            "--case-timeout", "300"]
    if replay and "case" in replay.get("replay_args", {}):
        args += ["--only-case", str(replay["replay_args"]["case"])]
    env = build.san_env("asan")
    if prop == "C08":
        # a process zone with distinct standard/daylight names: strftime's own %Z variants print tzname[tm_isdst], so the
        # tm_isdst the library hands to strftime becomes observable (the zones under test never come from TZ)
        env["TZ"] = "XST5XDT,M3.2.0,M11.1.0"
    res, rc = core.run_monitor(exe, args, env, os.path.join(chk.workdir, "out"), timeout=7200 if tier == "thorough" else 900)
    chk.absorb(res, replay_args=dict(monitor="fmtmon"))
    cov = dict(evaluations=res.stat(prop + ".evaluations"), distinct_nontrivial=res.stat(prop + ".distinct_nontrivial"), rule=RULES[prop],
               samples=res.samples.get(prop, [])[:5], sanitizer_reports=len(res.crashes),
               build_flavour="asan (g++ -fsanitize=address,undefined -fno-sanitize-recover=all)")
    for k, v in sorted(res.stats.items()):
        if k.startswith(prop + ".") and k.split(".", 1)[1] not in ("evaluations", "distinct_nontrivial"):
            cov[k.split(".", 1)[1]] = v
    chk.coverage = cov
    if tier == "thorough" and not replay and prop in ("C08", "C09"):
        fuzz_leg(chk, cov, prop)
    if not replay:
        need = {"C07": ["C07.offsets_with_seconds", "C07.negative_years", "C07.years_beyond_4_digits", "C07.week_number_dates", "C07.zones.F", "C07.zones.R", "C07.zones.S"],
                "C08": ["C08.wellformed", "C08.malformed", "C08.percent_free_formats"],
                "C09": ["C09.accepted", "C09.rejected", "C09.random_pairs", "C09.skipped_or_repeated_civil_inputs"],
                "C18": ["C18.negative_non_multiples", "C18.limit_parses_expected_to_fail", "C18.duration_type_runs"]}[prop]
        for k in need:
            if res.stat(k) == 0:
                chk.inconclusive_because("monitor observed no '%s' events" % k)
    return chk.finish()


def fuzz_leg(chk, cov, prop):
    import glob
    import re
    import subprocess
    name = "fuzz_format" if prop == "C08" else "fuzz_parse"
    try:
        exe = build.build_bin("fuzz", name)
    except build.BuildError as e:
        chk.inconclusive_because("fuzz build failed: %s" % str(e)[-800:])
        return
    seeds = os.path.join(chk.workdir, "fuzz-seeds")
    os.makedirs(seeds, exist_ok=True)
    for i, s in enumerate([b"%Y-%m-%d %H:%M:%E*S %E*z\x002024-02-29 23:59:60.5 -08:00:01", b"%E4Y%ET%s\x00-999T-9223372036854775808",
                           b"%E*f|%:::z|%U %w\x00000|+01|53 6", b"%E1024S%%%\x00", b"%c %x %X %p %A %B\x00Thu Jan  1 00:00:00 1970"]):
        with open(os.path.join(seeds, "s%d" % i), "wb") as f:
            f.write(s)
    art = os.path.join(chk.workdir, "fuzz-artifacts") + "/"
    os.makedirs(art, exist_ok=True)
    env = build.san_env("asan")
    env["ASAN_OPTIONS"] += ":quarantine_size_mb=8"
    cmd = [exe, "-max_len=256", "-runs=1500000", "-jobs=%d" % core.ncpu(), "-workers=%d" % core.ncpu(), "-timeout=20", "-rss_limit_mb=4096",
           "-artifact_prefix=" + art, "-print_final_stats=1", seeds]
    try:
        subprocess.run(cmd, env=env, cwd=chk.workdir, stdout=subprocess.PIPE, stderr=subprocess.STDOUT, timeout=5400, text=True, errors="replace")
    except subprocess.TimeoutExpired:
        chk.inconclusive_because("fuzz leg timed out")
        return
    execs = 0
    covmax = 0
    for lp in glob.glob(os.path.join(chk.workdir, "fuzz-*.log")):
        with open(lp, errors="replace") as f:
            t = f.read()
        for m in re.finditer(r"stat::number_of_executed_units:\s*(\d+)", t):
            execs += int(m.group(1))
        for m in re.finditer(r"cov: (\d+)", t):
            covmax = max(covmax, int(m.group(1)))
    cov["fuzz_executions"] = execs
    cov["fuzz_edge_coverage"] = covmax
    for a in sorted(os.listdir(art))[:10]:
        r = subprocess.run([exe, os.path.join(art, a)], env=env, stdout=subprocess.PIPE, stderr=subprocess.STDOUT, text=True, errors="replace", timeout=120)
        errfile = os.path.join(chk.workdir, "fuzz-" + a + ".err")
        with open(errfile, "w") as f:
            f.write(r.stdout)
        key, text = core.crash_key("fuzz-artifact", errfile, "class=fuzz")
        if a.startswith("timeout-"):
            key = "hang:fuzz"
        chk.violation(key, "libFuzzer artifact %s\n%s" % (a, text[:2000]), files=[os.path.join(art, a), errfile])
    if execs == 0:
        chk.inconclusive_because("fuzzer reported no executions")
