"""C04 C05 C17: civil-time monitors (harness/civilmon.cc), oracle O-CAL on 128-bit integers."""
import os

from . import build, core

RULES = {
    "C04": "six-field tuples: (a) every day of the 146097-day cycle (years 2000-2399, also shifted by 400*k years incl. the extreme "
           "cycles of int64) as base with a panel of 72 out-of-range overlays per field; (b) random tuples from a mixture (small, "
           "+-1e5, full int64, within 1000 of either limit, random bit-length, months = multiples of 12 at the year limits, huge "
           "day/hour/minute/second counts compensated by the year); (c) all 36 alignment conversions and operator<<. Each tuple is "
           "vetted in 128-bit against the statement's representability bound before the call and then fed to all six civil types, "
           "also through the 5-, 4-, 3-, 2- and 1-argument constructor forms wherever the omitted fields have their default values; "
           "(d) a sweep of every year in [-2^29, 2^29) (thorough +-2^32): eight constructions per year that carry across the end of "
           "February and the year boundary, expected values from the leap rule alone. "
           "Non-trivial = distinct tuple with >= 2 fields out of range (hash set per chunk; chunks are disjoint by construction or "
           "64-bit random).",
    "C05": "per alignment: (a, n) and (a, b) pairs from the C04 mixture plus n = INT64_MIN/MAX, a - INT64_MIN, steps landing on the "
           "representable limits +-2, differences engineered to equal INT64_MIN/MAX +-1, years differing by multiples of 400 +-1, "
           "cycle bases with fixed step panel; representability decided first in 128-bit. Checked: a+n, n+a, a-n, +=, ++/--, "
           "(a+n)-a == n, b+(a-b) == a, all six relational operators vs unit index order, a<b iff a-b<0, cross-alignment "
           "comparisons vs six-field lexicographic order; a sweep of every year in [-2^29, 2^29) (thorough +-2^32) with twelve steps, "
           "differences and comparisons per year across the end of February and the year boundary. Non-trivial = distinct case with |n| > 1000, |year| > 1e5 or a pair.",
    "C17": "every day of the 146097-day cycle x 7 weekdays (weekday, yearday, next_weekday, prev_weekday), replicated at year "
           "offsets 400*k for k in {0,+-1,+-2,-5,-6,+-1000,+-1e9, extremes of int64}, plus random days over int64 years; every day of the years next to 12 powers of two; and a sweep of *every* year "
           "in [-2^30, 2^30) (thorough: [-2^32, 2^32)) with six questions per year around the end of February and the year end, the "
           "oracle advanced year by year. "
           "Non-trivial = distinct day (each checked against all 7 target weekdays).",
}


def run(prop, tier, seed, replay=None):
    chk = core.Check(prop, tier, seed, replay)
    chk.assumptions = ["oracle O-CAL (harness/oracle.h) written from the calendar's definition on __int128; self-test by naive "
                       "day-by-day walk over 800 years at every start",
                       "UBSan/ASan report = violation (arguments are vetted against the representability bound first)"]
    try:
        exe = build.build_bin("asan", "civilmon")
    except build.BuildError as e:
        chk.inconclusive_because("build failed: %s" % str(e)[-1500:])
        return chk.finish()
    args = ["--prop", prop, "--seed", str(seed), "--tier", tier, "--workers", str(core.ncpu()), "--case-timeout", "300", "--leg", "main"]
    if replay and "case" in replay.get("replay_args", {}):
        args += ["--only-case", str(replay["replay_args"]["case"])]
        if replay["replay_args"].get("leg") == "sweep":
            args[args.index("--leg") + 1] = "sweep"
    res, rc = core.run_monitor(exe, args, build.san_env("asan"), os.path.join(chk.workdir, "out"),
                               timeout=3600 if tier == "thorough" else 900)
    chk.absorb(res, replay_args=dict(monitor="civilmon"))
    if not replay:
        # the year sweep runs in an optimised build without sanitizers (header-only arithmetic; 26 G library calls)
        try:
            exe2 = build.build_bin("fast", "civilmon")
        except build.BuildError as e:
            chk.inconclusive_because("build failed: %s" % str(e)[-1500:])
            return chk.finish()
        a2 = ["--prop", prop, "--seed", str(seed), "--tier", tier, "--workers", str(core.ncpu()), "--case-timeout", "600", "--leg", "sweep"]
        res2, rc2 = core.run_monitor(exe2, a2, build.san_env("fast"), os.path.join(chk.workdir, "out-sweep"),
                                     timeout=3600 if tier == "thorough" else 900)
        chk.absorb(res2, replay_args=dict(monitor="civilmon", leg="sweep"))
        for k, v in res2.stats.items():
            res.stats[k] = res.stats.get(k, 0) + v
    cov = dict(evaluations=res.stat(prop + ".evaluations"), distinct_nontrivial=res.stat(prop + ".distinct_nontrivial"),
               rule=RULES[prop], samples=res.samples.get(prop, [])[:4], sanitizer_reports=len(res.crashes),
               build_flavour="asan (g++ -fsanitize=address,undefined -fno-sanitize-recover=all)")
    for k, v in sorted(res.stats.items()):
        if k.startswith(prop + ".") and k.split(".", 1)[1] not in ("evaluations", "distinct_nontrivial"):
            cov[k.split(".", 1)[1]] = v
    if prop in ("C04", "C17") and not replay:
        cov["exhaustive"] = True
        cov["exhaustive_scope"] = ("the 146097-day cycle (as base days) and every year of the sweep range (%d years, a fixed panel of "
                                   "operations per year); the int64^6 argument space is sampled" % res.stat(prop + ".year_sweep_years"))
    chk.coverage = cov
    if not replay:
        need = {"C04": ["C04.base_days", "C04.cross_alignment_conversions", "C04.stream_outputs", "C04.year_sweep_years"],
                "C05": ["C05.difference_at_int64_limit", "C05.subtract_int64_min", "C05.cross_alignment_comparisons", "C05.base_days", "C05.year_sweep_years"],
                "C17": ["C17.days", "C17.year_sweep_years"]}[prop]
        for k in need:
            if res.stat(k) == 0:
                chk.inconclusive_because("monitor observed no '%s' events" % k)
        if prop == "C17" and res.stat("C17.days") % 146097 != 0:
            chk.inconclusive_because("cycle not enumerated completely: %d days" % res.stat("C17.days"))
        if prop == "C04" and res.stat("C04.base_days") < 146097:
            chk.inconclusive_because("cycle not enumerated completely: %d base days" % res.stat("C04.base_days"))
    return chk.finish()
