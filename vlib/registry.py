"""property id -> check function(prop, tier, seed, replay) -> exit code"""
from . import checks_civil, checks_conc, checks_env, checks_fmt, checks_hist, checks_load, checks_misc, checks_zone

CHECKS = {}
for _p in ("C01", "C02", "C03", "C06", "C10", "C11"):
    CHECKS[_p] = checks_zone.run
for _p in ("C04", "C05", "C17"):
    CHECKS[_p] = checks_civil.run

for _p in ("C15", "C16"):
    CHECKS[_p] = checks_misc.run

CHECKS["C12"] = checks_load.run
CHECKS["C13"] = checks_conc.run
CHECKS["C14"] = checks_hist.run
CHECKS["C19"] = checks_env.run
CHECKS["C20"] = checks_conc.run
for _p in ("C07", "C08", "C09", "C18"):
    CHECKS[_p] = checks_fmt.run

PREBUILD = [("asan", "envprobe"), ("asan", "histmon"), ("asan", "concmon"), ("tsan", "concmon"), ("asan", "fmtmon"), ("asan", "loadmon"), ("pat", "loadmon"), ("zero", "loadmon"), ("asan", "zonemon"), ("asan", "civilmon"), ("asan", "fixedmon"), ("asan", "posixmon")]
