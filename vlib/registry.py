"""property id -> check function(prop, tier, seed, replay) -> exit code"""
from . import checks_zone

CHECKS = {}
for _p in ("C01", "C02", "C03", "C06", "C10", "C11"):
    CHECKS[_p] = checks_zone.run
