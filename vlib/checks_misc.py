"""C15 (fixed-offset zones and names) and C16 (POSIX-TZ strings)."""
import os

from . import build, core

RULES = {
    "C15": "every integer offset in [-90000, 90000] (exhaustive): fixed_time_zone(o) name/lookup at instants spread over int64, "
           "helpers ToName/FromName/ToAbbr, load of the canonical name with a zone-data factory that must not be called; name "
           "mutations: every single-byte substitution (45-byte alphabet incl. NUL), insertion and deletion on 8 canonical names, "
           "case changes, hand-picked near misses (24:00:01, 23:59:60, -00:00:00, 00:99:99) and random digit strings, each decided "
           "by the shape predicate of the statement. Non-trivial = non-zero offsets within 24h + every mutated name.",
    "C16": "strings: grammar sentences with every optional part present/absent and every numeric field at min, max, min-1, max+1 "
           "(zero-padded and over-long numbers included), single-edit mutants (dropped rule(s), extra rule, trailing byte, "
           "insert/delete/replace, doubled sign, dropped '.field', unterminated '<'), random bytes, and a fixed boundary panel. "
           "For each: acceptance both ways vs O-POSIX, every meaningful field, and equality of results under 0x00 and 0xA5 "
           "pre-fill of the scalar members; every 8th accepted string also as the footer of a TZif file (load + lookups around "
           "the rule transitions). Non-trivial = distinct string (hash set per chunk).",
}


def run(prop, tier, seed, replay=None):
    chk = core.Check(prop, tier, seed, replay)
    name = {"C15": "fixedmon", "C16": "posixmon"}[prop]
    try:
        exe = build.build_bin("asan", name)
    except build.BuildError as e:
        chk.inconclusive_because("build failed: %s" % str(e)[-1500:])
        return chk.finish()
    args = ["--seed", str(seed), "--tier", tier, "--workers", str(core.ncpu()), "--case-timeout", "300"]
    if replay and "case" in replay.get("replay_args", {}):
        args += ["--only-case", str(replay["replay_args"]["case"])]
    env = build.san_env("asan")
    env["TZDIR"] = os.path.join(chk.workdir, "no-such-tzdir")  # names outside the fixed shape must not resolve
    res, rc = core.run_monitor(exe, args, env, os.path.join(chk.workdir, "out"), timeout=3600 if tier == "thorough" else 900)
    chk.absorb(res, replay_args=dict(monitor=name))
    cov = dict(evaluations=res.stat(prop + ".evaluations"), distinct_nontrivial=res.stat(prop + ".distinct_nontrivial"),
               rule=RULES[prop], samples=res.samples.get(prop, [])[:5], sanitizer_reports=len(res.crashes),
               build_flavour="asan (g++ -fsanitize=address,undefined -fno-sanitize-recover=all)")
    for k, v in sorted(res.stats.items()):
        if k.startswith(prop + ".") and k.split(".", 1)[1] not in ("evaluations", "distinct_nontrivial"):
            cov[k.split(".", 1)[1]] = v
    if prop == "C15":
        chk.assumptions = ["reference is the 15-line model in harness/fixedmon.cc written from the statement",
                           "TZDIR points at a non-existent directory so that names outside the shape cannot resolve to data"]
        if not replay:
            cov["exhaustive"] = res.stat("C15.offsets") == 180001
            cov["exhaustive_scope"] = "the 180001 integer offsets of [-90000, 90000]; name mutations are sampled"
            if res.stat("C15.offsets") != 180001:
                chk.inconclusive_because("offset space not enumerated completely: %d" % res.stat("C15.offsets"))
            if res.stat("C15.name_mutations_in_shape") == 0 or res.stat("C15.name_mutations") == 0:
                chk.inconclusive_because("no name mutations observed")
    else:
        chk.assumptions = ["O-POSIX (harness/oracle.h) encodes the grammar of the statement; strings containing NUL are outside the "
                           "domain (the library takes a C string)",
                           "end-to-end leg only for footers whose rule transitions alternate >= 20 days apart, body ending at one of "
                           "the footer's own transitions"]
        if not replay:
            for k in ("C16.accepted_by_model", "C16.accepted_with_dst", "C16.e2e_loads", "C16.e2e_lookups", "C16.class.mutant",
                      "C16.class.random", "C16.revisits_after_a_rejection"):
                if res.stat(k) == 0:
                    chk.inconclusive_because("monitor observed no '%s' events" % k)
    chk.coverage = cov
    return chk.finish()
