"""C19: zone-name resolution and UTC fallback across environments. Child processes (harness/envprobe.cc,
default file data source) are started with each environment of the matrix; a Python model of the
statement predicts (ok, name(), ==utc, same data as the absolute path) for every probe."""
import itertools
import os
import re
import shutil
import struct
import subprocess
from concurrent.futures import ThreadPoolExecutor

from . import build, core, corpus
from . import pymodel as M

RULE = ("environment = TZDIR {unset, empty, valid dir, nonexistent, a file} x TZ {unset, empty, X, :X, localtime, :localtime, ::X, "
        "invalid, absolute path, fixed name, UTC} x LOCALTIME {unset, valid, invalid}; in each child 34 names are loaded "
        "(relative, nested, absolute, file:-relative, file:-absolute, empty, directory, truncated, leap-second file, garbage, "
        "':'-prefixed, with '..', UTC, UTC0, fixed, zero fixed, unreadable as uid nobody) plus local_time_zone() and a "
        "default-constructed zone; expected outcome from the model, data identity by comparing the zone digest with that of the "
        "same file loaded by absolute path in the same child. Non-trivial = distinct (environment, name) pair whose expected "
        "outcome is not the trivial internal-name case. Plus: every proper prefix of 7 well-formed files (version 1 with "
        "indicator bytes, versions 2/3/4, shipped zones) loaded by absolute path must fail with UTC; 60 (thorough 400) in-process "
        "histories that change TZDIR/TZ/LOCALTIME between calls (a name resolves against the environment of its first load). "
        "Thorough adds strace fault injection on the zone file's reads.")

FIXED_RE = re.compile(r"^Fixed/UTC([+-])(\d\d):(\d\d):(\d\d)$")


def hexs(s):
    return "x" + s.encode("latin1").hex()


def unhex(h):
    return bytes.fromhex(h[1:]).decode("latin1")


def fixed_offset(name):
    """offset if the name is internal (UTC, UTC0, fixed shape <= 24h), else None"""
    if name in ("UTC", "UTC0"):
        return 0
    m = FIXED_RE.match(name)
    if not m:
        return None
    tot = int(m.group(2)) * 3600 + int(m.group(3)) * 60 + int(m.group(4))
    if tot > 86400:
        return None
    return -tot if m.group(1) == "-" else tot


def loadable(path):
    """model's own reading of the file: a TZif without leap-second records"""
    try:
        if os.path.isdir(path):
            return False
        with open(path, "rb") as f:
            data = f.read()
        z = M.TZ(data)
        if z.leap:
            return False
        if z.footer and not z.posix.ok:
            return False
        return True
    except Exception:
        return False


def model_load(name, env, unreadable_paths=()):
    """-> (ok, reported name or None for UTC, path or None)"""
    off = fixed_offset(name)
    if off is not None:
        if off == 0:
            return True, "UTC", None  # the UTC zone itself
        return True, name, None
    if name.startswith("libc:"):
        return None, None, None
    n = name[5:] if name.startswith("file:") else name
    if n.startswith("/"):
        path = n
    else:
        tzdir = env.get("TZDIR") or "/usr/share/zoneinfo"
        path = tzdir + "/" + n
    if path in unreadable_paths:
        return False, "UTC", path
    if "\0" in path:
        return False, "UTC", path
    if loadable(path):
        return True, name, path
    return False, "UTC", path


def model_local(env, unreadable_paths=()):
    zone = env.get("TZ")
    if zone is None:
        zone = ":localtime"
    if zone.startswith(":"):
        zone = zone[1:]
    if zone == "localtime":
        zone = env["LOCALTIME"] if "LOCALTIME" in env else "/etc/localtime"
    return zone, model_load(zone, env, unreadable_paths)


def leap_file(src, v1_leaps=True, v1_only=False):
    """a valid TZif v2 with one leap-second record in both blocks (what 'right/' files look like)"""
    z = M.TZ(src)
    types = z.raw_types
    ab = b"".join(t[2].encode("latin1") + b"\0" for t in z.types)
    # rebuild abbreviation indices
    amap = {}
    chars = b""
    tlist = []
    for (u, d, a), t in zip(types, z.types):
        if t[2] not in amap:
            amap[t[2]] = len(chars)
            chars += t[2].encode("latin1") + b"\0"
        tlist.append((u, d, amap[t[2]]))

    def block(tl, ver):
        tr = [(t, i) for t, i in zip(z.times, z.idx) if tl == 8 or -2 ** 31 <= t < 2 ** 31]
        nleap = 1 if (tl == 8 or v1_leaps) else 0
        hdr = b"TZif" + ver + b"\0" * 15 + struct.pack(">6l", 0, 0, nleap, len(tr), len(tlist), len(chars))
        f = ">l" if tl == 4 else ">q"
        b = b"".join(struct.pack(f, t) for t, _ in tr) + bytes(i for _, i in tr)
        b += b"".join(struct.pack(">lBB", *t) for t in tlist) + chars
        if nleap:
            b += struct.pack(f, 78796800) + struct.pack(">l", 1)
        return hdr + b
    if v1_only:
        return block(4, b"\0")
    return block(4, b"2") + block(8, b"2") + b"\n" + z.footer.encode("latin1") + b"\n"


def run(prop, tier, seed, replay=None):
    chk = core.Check(prop, tier, seed, replay)
    chk.assumptions = ["the model reads the files itself at run time (vlib/pymodel.py), nothing about the host's zoneinfo is assumed",
                       "Linux/glibc branch of local_time_zone() only; Android/Apple/Fuchsia/Windows branches are not compiled here"]
    try:
        exe = build.build_bin("asan", "envprobe")
    except build.BuildError as e:
        chk.inconclusive_because("build failed: %s" % str(e)[-1500:])
        return chk.finish()
    w = chk.workdir
    os.chmod(w, 0o755)
    tzdir = os.path.join(w, "tzdir")
    src_root = os.path.join(corpus.REPO, "testdata", "zoneinfo")
    for rel in ("America/New_York", "Europe/Dublin", "Asia/Kolkata", "Etc/UTC", "Australia/Lord_Howe", "America/Argentina/Ushuaia"):
        os.makedirs(os.path.dirname(os.path.join(tzdir, rel)), exist_ok=True)
        shutil.copy(os.path.join(src_root, rel), os.path.join(tzdir, rel))
    ny = open(os.path.join(tzdir, "America/New_York"), "rb").read()
    with open(os.path.join(tzdir, "Trunc"), "wb") as f:
        f.write(ny[:len(ny) // 2])
    with open(os.path.join(tzdir, "TruncNoNL"), "wb") as f:  # footer complete except for its closing newline
        f.write(ny[:-1])
    with open(os.path.join(tzdir, "TruncFooter"), "wb") as f:  # ends right after the footer's opening newline
        f.write(ny[:ny.rindex(b"\n", 0, len(ny) - 1) + 1])
    with open(os.path.join(tzdir, "TruncMidFooter"), "wb") as f:
        f.write(ny[:-6])
    with open(os.path.join(tzdir, "Leap"), "wb") as f:
        f.write(leap_file(ny))
    with open(os.path.join(tzdir, "Leap64"), "wb") as f:  # leap records only in the 64-bit block (zic -b slim -L)
        f.write(leap_file(ny, v1_leaps=False))
    with open(os.path.join(tzdir, "LeapV1"), "wb") as f:  # a version-1 file (32-bit block only) with a leap-second record
        f.write(leap_file(ny, v1_only=True))
    # decoys: zone data stored under fixed-offset names must never be consulted
    os.makedirs(os.path.join(tzdir, "Fixed"), exist_ok=True)
    with open(os.path.join(tzdir, "Fixed", "UTC+01:00:00"), "wb") as f:
        f.write(ny)
    with open(os.path.join(tzdir, "Fixed", "UTC-23:59:59"), "wb") as f:
        f.write(b"this is not TZif data\n")
    with open(os.path.join(tzdir, "UTC0"), "wb") as f:
        f.write(ny)
    # complete files that break one structural rule of RFC 9636 (the model's reader rejects each; only those are kept)
    bad_struct = []
    try:
        zz = M.TZ(ny)
        hdr_types = [(u, d, a) for (u, d, a) in zz.raw_types]
        chars = b"".join(t[2].encode("latin1") + b"\0" for t in dict.fromkeys(zz.types))
        amap2 = {}
        cc = b""
        tl2 = []
        for (u, d, a), t in zip(zz.raw_types, zz.types):
            if t[2] not in amap2:
                amap2[t[2]] = len(cc)
                cc += t[2].encode("latin1") + b"\0"
            tl2.append((u, d, amap2[t[2]]))
        trn = list(zip(zz.times, zz.idx))

        def v2(types_, trans_, chars_):
            def block(tlen):
                tr = [(t, i) for t, i in trans_ if tlen == 8 or -2 ** 31 <= t < 2 ** 31]
                h = b"TZif2" + b"\0" * 15 + struct.pack(">6l", 0, 0, 0, len(tr), len(types_), len(chars_))
                f = ">l" if tlen == 4 else ">q"
                return h + b"".join(struct.pack(f, t) for t, _ in tr) + bytes(i for _, i in tr) + b"".join(struct.pack(">lBB", *t) for t in types_) + chars_
            return block(4) + block(8) + b"\n" + zz.footer.encode("latin1") + b"\n"
        cand = {
            "BadAbbrIdxEqCharcnt": v2([tl2[0][:2] + (len(cc),)] + tl2[1:], trn, cc),
            "BadAbbrIdxBeyond": v2([tl2[0][:2] + (len(cc) + 3,)] + tl2[1:], trn, cc),
            "BadTypeIdxEqTypecnt": v2(tl2, trn[:-1] + [(trn[-1][0], len(tl2))], cc),
            "BadTimesDescending": v2(tl2, trn[:-2] + [(trn[-1][0], trn[-2][1]), (trn[-2][0], trn[-1][1])], cc),
            "BadNoNulAtEnd": v2(tl2, trn, cc[:-1] + b"X"),
        }
        for nm, data in cand.items():
            pth = os.path.join(tzdir, nm)
            with open(pth, "wb") as f:
                f.write(data)
            if loadable(pth):
                os.unlink(pth)
            else:
                bad_struct.append(nm)
    except Exception:
        bad_struct = []
    with open(os.path.join(tzdir, "Garbage"), "wb") as f:
        f.write(b"this is not TZif data\n" * 10)
    with open(os.path.join(tzdir, "Empty"), "wb") as f:
        pass
    os.makedirs(os.path.join(tzdir, "Dir"), exist_ok=True)
    with open(os.path.join(tzdir, "Secret"), "wb") as f:
        f.write(ny)
    os.chmod(os.path.join(tzdir, "Secret"), 0o000)
    with open(os.path.join(tzdir, ":Colon"), "wb") as f:
        f.write(ny)
    shutil.copy(os.path.join(src_root, "Asia/Kolkata"), os.path.join(tzdir, "localtime"))  # a zone literally named 'localtime'
    afile = os.path.join(w, "afile")
    with open(afile, "wb") as f:
        f.write(ny)
    lt_valid = os.path.join(tzdir, "Europe/Dublin")
    for d, _, fs in os.walk(tzdir):
        os.chmod(d, 0o755)
    abs_ny = os.path.join(tzdir, "America/New_York")
    names = ["America/New_York", "Europe/Dublin", "America/Argentina/Ushuaia", abs_ny, "file:America/New_York", "file:" + abs_ny, "", "Dir", "Trunc", "TruncNoNL", "TruncFooter", "TruncMidFooter",
             "Leap", "Leap64", "LeapV1", "Garbage", "Empty", ":America/New_York", ":Colon", "America/../Europe/Dublin", "UTC", "UTC0", "Fixed/UTC+01:00:00",
             "Fixed/UTC-23:59:59", "Fixed/UTC+00:00:00", "Fixed/UTC+24:00:01", "No/Such/Zone", "file:", "file:/nonexistent/x", "localtime", "Etc/UTC",
             "Secret", "america/new_york", "America/New_York/", os.path.join(tzdir, "Asia/Kolkata")] + bad_struct
    TZDIRS = {"unset": None, "empty": "", "valid": tzdir, "nonexistent": os.path.join(w, "no-such-dir"), "file": afile}
    TZS = {"unset": None, "empty": "", "X": "America/New_York", ":X": ":Europe/Dublin", "localtime": "localtime", ":localtime": ":localtime",
           "::X": "::Europe/Dublin", "invalid": "No/Such", "abs": abs_ny, ":abs": ":" + abs_ny, "fixed": "Fixed/UTC-03:30:00", "UTC": "UTC", "dir": "Dir"}
    LTS = {"unset": None, "valid": lt_valid, "invalid": os.path.join(w, "missing-localtime"), "relative": "Asia/Kolkata"}
    combos = list(itertools.product(sorted(TZDIRS), sorted(TZS), sorted(LTS)))
    try:
        import pwd
        nobody = pwd.getpwnam("nobody")
        can_drop = os.geteuid() == 0
    except Exception:
        nobody, can_drop = None, False
    base_env = build.san_env("asan")
    for k in ("TZ", "TZDIR", "LOCALTIME"):
        base_env.pop(k, None)
    if can_drop:
        # the unprivileged user must be able to reach the probe and the test tree (not so under e.g. /root)
        def _drop():
            os.setgid(nobody.pw_gid)
            os.setuid(nobody.pw_uid)
        try:
            t = subprocess.run([exe, abs_ny], env=base_env, stdout=subprocess.PIPE, stderr=subprocess.PIPE, text=True, timeout=60, preexec_fn=_drop)
            if t.returncode != 0 or " 1 " not in t.stdout.split("\n")[0]:
                can_drop = False
        except (OSError, subprocess.SubprocessError):
            can_drop = False

    def child(combo, as_nobody=False):
        td, tz, lt = combo
        env = dict(base_env)
        menv = {}
        if TZDIRS[td] is not None:
            env["TZDIR"] = menv["TZDIR"] = TZDIRS[td]
        if TZS[tz] is not None:
            env["TZ"] = menv["TZ"] = TZS[tz]
        if LTS[lt] is not None:
            env["LOCALTIME"] = menv["LOCALTIME"] = LTS[lt]
        args = [exe] + [n if n else "--empty" for n in names]

        def drop():
            os.setgid(nobody.pw_gid)
            os.setuid(nobody.pw_uid)
        # the children run *inside* the test tree: a relative name that does not resolve under $TZDIR must not be found
        # relative to the working directory either
        p = subprocess.run(args, env=env, stdout=subprocess.PIPE, stderr=subprocess.PIPE, text=True, errors="replace", timeout=120,
                           preexec_fn=drop if as_nobody else None, cwd=tzdir)
        return combo, menv, p

    evaluations = 0
    internal_ref = {}
    nontrivial = set()
    samples = []
    stats = dict(children=0, loads=0, local_calls=0, loads_expected_ok=0, loads_expected_fail=0, local_expected_fallback=0, unreadable_probes=0,
                 sanitizer_reports=0)
    todo = [(c, False) for c in combos]
    if can_drop:
        todo += [(c, True) for c in combos if c[1] in ("unset", "X") and c[2] == "unset"]
    else:
        stats["unreadable_probes_skipped_no_setuid"] = 1
    if replay and replay.get("replay_args", {}).get("combo"):
        rc = tuple(replay["replay_args"]["combo"])
        todo = [(c, n) for (c, n) in todo if c == rc]
    with ThreadPoolExecutor(max_workers=core.ncpu()) as ex:
        results = list(ex.map(lambda t: (t, child(t[0], t[1])), todo))
    for (combo_n, (combo, menv, p)) in results:
        as_nobody = combo_n[1]
        stats["children"] += 1
        tag = "TZDIR=%s TZ=%s LOCALTIME=%s%s" % (combo + ((" uid=nobody",) if as_nobody else ("",)))
        if p.returncode != 0:
            stats["sanitizer_reports"] += 1
            errfile = os.path.join(w, "child-%s-%s-%s.err" % combo)
            with open(errfile, "w") as f:
                f.write(p.stderr)
            key, text = core.crash_key("exit%d" % p.returncode, errfile, "class=env")
            chk.violation(key, "%s\n%s" % (tag, text[:2000]), files=[errfile], replay_args=dict(combo=list(combo)))
            continue
        unreadable = (os.path.join(tzdir, "Secret"),) if as_nobody else ()
        lines = p.stdout.splitlines()
        got = {}
        digest_by_path = {}
        for ln in lines:
            f = ln.split()
            if f[0] == "L":
                got[unhex(f[1])] = (f[2] == "1", unhex(f[3]), f[4] == "1", f[5])
        # digests of absolute-path loads in this child serve as the identity reference
        for n, g in got.items():
            if n.startswith("/") and g[0]:
                digest_by_path[os.path.normpath(n)] = g[3]
        utc_digest = got["UTC"][3]
        for n in names:
            exp_ok, exp_name, path = model_load(n, menv, unreadable)
            if exp_ok is None:
                continue
            g = got.get(n)
            evaluations += 1
            stats["loads"] += 1
            stats["loads_expected_ok" if exp_ok else "loads_expected_fail"] += 1
            if n == "Secret" and as_nobody:
                stats["unreadable_probes"] += 1
            if fixed_offset(n) is None:
                nontrivial.add((combo, as_nobody, n))
            if g is None:
                chk.violation("probe-output-missing", "%s name=%r" % (tag, n), replay_args=dict(combo=list(combo)))
                continue
            ok, rname, is_utc, dig = g
            bad = None
            if ok != exp_ok:
                bad = "load-%s-but-model-%s" % ("succeeded" if ok else "failed", "succeeds" if exp_ok else "fails")
            elif not exp_ok and (not is_utc or rname != "UTC" or dig != utc_digest):
                bad = "failed-load-not-utc"
            elif exp_ok and rname != exp_name:
                bad = "wrong-reported-name"
            elif exp_ok and exp_name == "UTC" and not is_utc:
                bad = "utc-name-not-utc"
            elif exp_ok and path is None and exp_name != "UTC":
                # an internal (fixed-offset) name: the same zone as in a process that has no zone data at all
                if n not in internal_ref:
                    e2 = dict(base_env)
                    e2["TZDIR"] = os.path.join(w, "no-such-dir")
                    pr = subprocess.run([exe, n], env=e2, stdout=subprocess.PIPE, stderr=subprocess.PIPE, text=True, timeout=60)
                    internal_ref[n] = next((ln.split()[5] for ln in pr.stdout.splitlines() if ln.startswith("L ")), None)
                if internal_ref[n] != dig:
                    bad = "internal-name-resolved-to-zone-data"
            elif exp_ok and path is not None:
                ref = digest_by_path.get(os.path.normpath(path))
                if ref is None:
                    # the referenced file is not among the absolute-path probes: load it in a helper child
                    pr = subprocess.run([exe, path], env=base_env, stdout=subprocess.PIPE, stderr=subprocess.PIPE, text=True, timeout=60)
                    for ln in pr.stdout.splitlines():
                        f = ln.split()
                        if f[0] == "L":
                            ref = f[5]
                    digest_by_path[os.path.normpath(path)] = ref
                if ref != dig:
                    bad = "resolved-to-different-data"
            if bad:
                chk.violation("resolve:%s:%s" % (bad, name_class(n)), "%s name=%r expected ok=%s name=%r path=%r; got ok=%s name=%r utc=%s" %
                              (tag, n, exp_ok, exp_name, path, ok, rname, is_utc), replay_args=dict(combo=list(combo)))
        # local_time_zone
        zone, (exp_ok, exp_name, path) = model_local(menv, unreadable)
        tl = [ln.split() for ln in lines if ln.startswith("T ")]
        dl = [ln.split() for ln in lines if ln.startswith("D ")]
        evaluations += 2
        stats["local_calls"] += 1
        nontrivial.add((combo, as_nobody, "<local>"))
        if not tl or not dl:
            chk.violation("probe-output-missing", tag, replay_args=dict(combo=list(combo)))
            continue
        lname, lutc, ldig = unhex(tl[0][1]), tl[0][2] == "1", tl[0][3]
        bad = None
        if exp_ok is None:
            pass
        elif not exp_ok:
            stats["local_expected_fallback"] += 1
            if not lutc or ldig != utc_digest:
                bad = "local-fallback-not-utc"
        else:
            if lname != exp_name:
                bad = "local-wrong-name"
            elif path is not None:
                ref = digest_by_path.get(os.path.normpath(path))
                if ref is None:
                    pr = subprocess.run([exe, path], env=base_env, stdout=subprocess.PIPE, stderr=subprocess.PIPE, text=True, timeout=60)
                    for ln in pr.stdout.splitlines():
                        f = ln.split()
                        if f[0] == "L":
                            ref = f[5]
                    digest_by_path[os.path.normpath(path)] = ref
                if ref != ldig:
                    bad = "local-resolved-to-different-data"
        if bad:
            chk.violation("local:%s:TZ=%s" % (bad, combo[1]), "%s: model zone=%r ok=%s name=%r path=%r; got name=%r utc=%s" %
                          (tag, zone, exp_ok, exp_name, path, lname, lutc), replay_args=dict(combo=list(combo)))
        if dl[0][1] != "1":
            chk.violation("default-constructed-not-utc", tag, replay_args=dict(combo=list(combo)))
        if len(samples) < 3 and combo[0] == "valid" and combo[1] in (":X", "localtime"):
            samples.append("%s: local_time_zone() -> name=%r utc=%s (model: zone=%r ok=%s); load('file:America/New_York') -> %r" %
                           (tag, lname, lutc, zone, exp_ok, got.get("file:America/New_York")))
    cov = dict(evaluations=evaluations, distinct_nontrivial=len(nontrivial), rule=RULE, samples=samples, names=len(names), environments=len(combos))
    cov.update(stats)
    if not replay:
        n1 = prefix_leg(chk, cov, exe, base_env, w, seed)
        n2 = sequence_leg(chk, cov, exe, base_env, w, seed, 400 if tier == "thorough" else 60)
        evaluations += n1 + n2
        cov["evaluations"] = evaluations
        if n1 == 0 or n2 == 0 or cov.get("env_sequence_first_loads_after_a_change", 0) == 0:
            chk.inconclusive_because("prefix or environment-sequence leg observed nothing")
    if tier == "thorough" and not replay:
        fault_leg(chk, cov, exe, base_env, tzdir)
    chk.coverage = cov
    if not replay:
        if stats["children"] < len(combos):
            chk.inconclusive_because("not all environments ran")
        if stats["loads_expected_ok"] == 0 or stats["loads_expected_fail"] == 0 or stats["local_expected_fallback"] == 0:
            chk.inconclusive_because("matrix did not produce both successes and failures")
    return chk.finish()


def name_class(n):
    if n == "":
        return "empty"
    if n.startswith("file:"):
        return "file-prefix"
    if n.startswith("/"):
        return "absolute"
    if n.startswith(":"):
        return "colon-prefix"
    if fixed_offset(n) is not None:
        return "internal"
    return "relative"


def fault_leg(chk, cov, exe, base_env, tzdir):
    """strace fault injection on the zone file's own syscalls: every injected failure must end in false+UTC or in
    exactly the uninjected zone, never something else."""
    path = os.path.join(tzdir, "America/New_York")
    ref = subprocess.run([exe, path], env=base_env, stdout=subprocess.PIPE, stderr=subprocess.PIPE, text=True, timeout=60).stdout.splitlines()
    ref_l = [ln.split() for ln in ref if ln.startswith("L ")][0]
    utc_l = subprocess.run([exe, "UTC"], env=base_env, stdout=subprocess.PIPE, stderr=subprocess.PIPE, text=True, timeout=60).stdout.split()
    injected = fired = 0
    env = dict(base_env)
    env["ASAN_OPTIONS"] = env.get("ASAN_OPTIONS", "") + ":detect_leaks=0"
    for sysc, errs in (("read", ("EIO", "EINTR", "EACCES")), ("openat", ("EACCES", "ENOENT", "EMFILE", "EINTR")), ("lseek", ("EIO",)), ("fstat", ("EIO",)),
                       ("newfstatat", ("EACCES",))):
        for err in errs:
            for when in (1, 2, 3, 4, 5):
                trace = os.path.join(chk.workdir, "trace-%s-%s-%d.txt" % (sysc, err, when))
                cmd = ["strace", "-f", "-o", trace, "-P", path, "-e", "trace=%s" % sysc, "-e", "inject=%s:error=%s:when=%d" % (sysc, err, when), exe, path]
                try:
                    p = subprocess.run(cmd, env=env, stdout=subprocess.PIPE, stderr=subprocess.PIPE, text=True, timeout=120)
                except subprocess.TimeoutExpired:
                    chk.inconclusive_because("strace run timed out")
                    continue
                injected += 1
                try:
                    tr = open(trace).read()
                except OSError:
                    tr = ""
                did = "(INJECTED)" in tr
                fired += 1 if did else 0
                ls = [ln.split() for ln in p.stdout.splitlines() if ln.startswith("L ")]
                if p.returncode != 0 or not ls:
                    errfile = trace + ".err"
                    with open(errfile, "w") as f:
                        f.write(p.stderr)
                    key, text = core.crash_key("exit%d" % p.returncode, errfile, "class=fault")
                    chk.violation(key, "fault %s:%s:when=%d\n%s" % (sysc, err, when, text[:1500]), files=[errfile])
                    continue
                g = ls[0]
                ok = g[2] == "1"
                if ok and g[5] != ref_l[5]:
                    chk.violation("fault:partial-zone", "inject %s error=%s when=%d: load succeeded with a zone that differs from the uninjected one" % (sysc, err, when))
                if not ok and (g[4] != "1" or g[5] != utc_l[5]):
                    chk.violation("fault:failed-load-not-utc", "inject %s error=%s when=%d" % (sysc, err, when))
                if did and ok and sysc in ("read", "openat") and err != "EINTR":
                    # an injected hard error on the data path that still yields the full zone would mean the error was ignored;
                    # stdio retries nothing here, so this is unexpected but only if the digest is the full zone
                    pass
    cov["fault_injection_runs"] = injected
    cov["fault_injections_fired"] = fired
    if fired == 0:
        chk.inconclusive_because("no injected fault fired (strace -P filter matched nothing)")


# --------------------------------------------------------------------------- extra legs
def _probe_lines(exe, args, env, timeout=300):
    p = subprocess.run([exe] + args, env=env, stdout=subprocess.PIPE, stderr=subprocess.PIPE, text=True, errors="replace", timeout=timeout)
    return p, [ln.split() for ln in p.stdout.splitlines()]


def prefix_leg(chk, cov, exe, base_env, w, seed):
    """Every proper prefix of a well-formed file is not a TZif file: load_time_zone(absolute path) must fail with UTC,
    through the library's own file data source (whose Skip() is a seek). Base files: a version-1 file with
    standard/UT indicator bytes, a small version-2+ file of each version byte, and a shipped zone (sampled)."""
    import random
    r = random.Random("prefix/%d" % seed)
    d = os.path.join(w, "prefixes")
    os.makedirs(d, exist_ok=True)
    os.chmod(d, 0o755)
    bases = []
    types = [(-17762, 0, 0), (-18000, 0, 4), (-14400, 1, 8)]
    abbrs = b"LMT\0EST\0EDT\0"
    trans = [(-2717650800, 1), (-1633280400, 2), (-1615140000, 1), (1173596400, 2), (1194156000, 1)]
    bases.append(("v1-indicators", corpus.tzif_bytes(trans, types, abbrs, "", version=b"\0", v1="fat", isstd=[0, 1, 1], isut=[0, 0, 1])))
    for ver in (b"2", b"3", b"4"):
        bases.append(("v%s-indicators" % ver.decode(), corpus.tzif_bytes(trans, types, abbrs, "EST5EDT,M3.2.0,M11.1.0", version=ver, v1=r.choice(["slim", "fat"]),
                                                                           isstd=[0, 1, 1], isut=[0, 0, 1])))
    bases.append(("v2-plain", corpus.tzif_bytes(trans, types, abbrs, "EST5EDT,M3.2.0,M11.1.0", version=b"2", v1="slim")))
    bases.append(("shipped-Kolkata", open(os.path.join(corpus.REPO, "testdata", "zoneinfo", "Asia", "Kolkata"), "rb").read()))
    bases.append(("shipped-New_York", open(os.path.join(corpus.REPO, "testdata", "zoneinfo", "America", "New_York"), "rb").read()))
    names = []
    expect = {}
    for bname, data in bases:
        n = len(data)
        cuts = set(range(0, n)) if n <= 400 else set(range(0, 60)) | set(range(n - 120, n)) | {r.randrange(60, n - 120) for _ in range(80)}
        full = os.path.join(d, bname + "-full")
        with open(full, "wb") as f:
            f.write(data)
        names.append(full)
        expect[full] = True
        for k in sorted(cuts):
            p = os.path.join(d, "%s-%05d" % (bname, k))
            with open(p, "wb") as f:
                f.write(data[:k])
            names.append(p)
            expect[p] = False
    utc_dig = None
    done = 0
    failed_ok = 0
    for i in range(0, len(names), 150):
        chunk = names[i:i + 150]
        p, lines = _probe_lines(exe, ["UTC"] + chunk, base_env)
        if p.returncode != 0:
            errfile = os.path.join(w, "prefix-%d.err" % i)
            with open(errfile, "w") as f:
                f.write(p.stderr)
            key, text = core.crash_key("exit%d" % p.returncode, errfile, "class=prefix")
            chk.violation(key, "prefix leg\n%s" % text[:2000], files=[errfile])
            continue
        for f in lines:
            if f[0] != "L":
                continue
            n = unhex(f[1])
            if n == "UTC":
                utc_dig = f[5]
                continue
            ok = f[2] == "1"
            done += 1
            want = expect[n]
            # the model's own reader must agree with the construction
            if loadable(n) != want:
                chk.inconclusive_because("model reader disagrees with the construction for %s" % os.path.basename(n))
                continue
            if ok != want:
                chk.violation("resolve:load-%s-but-model-%s:%s" % ("succeeded" if ok else "failed", "succeeds" if want else "fails",
                                                                    "truncated-file" if not want else "complete-file"),
                              "file %s (%d bytes of %s)" % (os.path.basename(n), os.path.getsize(n), os.path.basename(n).rsplit("-", 1)[0]))
            elif not ok:
                failed_ok += 1
                if f[4] != "1" or unhex(f[3]) != "UTC" or f[5] != utc_dig:
                    chk.violation("resolve:failed-load-not-utc:truncated-file", "file %s" % os.path.basename(n))
    cov["prefix_files_loaded"] = done
    cov["prefix_files_rejected_as_expected"] = failed_ok
    cov["prefix_base_files"] = [b[0] for b in bases]
    return done


def sequence_leg(chk, cov, exe, base_env, w, seed, nseq, prop="C19"):
    """Histories that change TZDIR / TZ / LOCALTIME *between* calls inside one process. Model: a name's first load
    resolves against the environment of that moment and is remembered (success or failure) for the life of the
    process; local_time_zone() reads TZ and LOCALTIME afresh on every call and then loads that name."""
    import random
    r = random.Random("seq/%d" % seed)
    root = os.path.join(w, "seq")
    A, B = os.path.join(root, "A"), os.path.join(root, "B")
    src = os.path.join(corpus.REPO, "testdata", "zoneinfo")

    def put(dirp, rel, zone):
        p = os.path.join(dirp, rel)
        os.makedirs(os.path.dirname(p), exist_ok=True)
        shutil.copy(os.path.join(src, zone), p)
    put(A, "Zone/X", "America/New_York")
    put(B, "Zone/X", "Europe/Dublin")
    put(A, "Zone/Y", "Asia/Kolkata")
    put(B, "Zone/Y", "Asia/Kolkata")
    put(A, "OnlyA", "Australia/Lord_Howe")
    put(B, "OnlyB", "Pacific/Apia")
    put(A, "localtime", "Asia/Tokyo")
    put(B, "localtime", "Africa/Casablanca")
    put(root, "lt1", "Europe/Lisbon")
    put(root, "lt2", "America/Nuuk")
    for dd, _, _fs in os.walk(root):
        os.chmod(dd, 0o755)
    os.chmod(w, 0o755)
    lt1, lt2 = os.path.join(root, "lt1"), os.path.join(root, "lt2")
    V = {"TZDIR": [A, B, None, os.path.join(root, "nonexistent"), ""],
         "TZ": [None, "", "Zone/X", ":Zone/Y", "localtime", ":localtime", "No/Such", os.path.join(A, "OnlyA"), "Fixed/UTC+02:00:00", "OnlyB"],
         "LOCALTIME": [None, lt1, lt2, os.path.join(root, "missing"), "Zone/X", "OnlyA"]}
    NAMES = ["Zone/X", "Zone/Y", "OnlyA", "OnlyB", "No/Such", "file:Zone/X", "file:OnlyB", os.path.join(B, "Zone/X"), "UTC", "localtime",
             "Fixed/UTC-01:00:00", lt1, "file:" + lt2]

    def mk_sequences():
        seqs = []
        # deterministic: the data directory / local-time file changes between two first-time uses
        seqs.append([("E", "TZDIR", A), ("L", "OnlyA"), ("E", "TZDIR", B), ("L", "OnlyB"), ("L", "Zone/X"), ("L", "OnlyA"), ("T",)])
        seqs.append([("E", "TZDIR", A), ("L", "Zone/Y"), ("E", "TZDIR", B), ("L", "Zone/X"), ("L", "file:Zone/X")])
        seqs.append([("U", "TZDIR"), ("L", "No/Such"), ("E", "TZDIR", B), ("L", "OnlyB")])
        seqs.append([("U", "TZ"), ("E", "LOCALTIME", lt1), ("T",), ("E", "LOCALTIME", lt2), ("T",), ("U", "LOCALTIME"), ("T",)])
        seqs.append([("E", "TZ", "localtime"), ("E", "LOCALTIME", lt2), ("T",), ("E", "LOCALTIME", lt1), ("T",), ("E", "TZ", ":Zone/Y"), ("E", "TZDIR", A), ("T",),
                     ("E", "TZDIR", B), ("E", "TZ", "Zone/X"), ("T",)])
        seqs.append([("E", "TZDIR", A), ("E", "TZ", "OnlyB"), ("T",), ("E", "TZDIR", B), ("T",), ("L", "OnlyB")])
        # a NUL byte in a digit position is not a digit: not a fixed-offset name, and no file either
        seqs.append([("E", "TZDIR", A), ("L", "Fixed/UTC+0\0:00:00"), ("L", "Fixed/UTC+01:0\0:00"), ("L", "Fixed/UTC-00:00:0\0"), ("L", "Fixed/UTC+01:00:00")])
        for _ in range(nseq):
            sq = []
            for _ in range(r.randrange(6, 16)):
                k = r.random()
                if k < 0.35:
                    var = r.choice(sorted(V))
                    val = r.choice(V[var])
                    sq.append(("U", var) if val is None else ("E", var, val))
                elif k < 0.8:
                    sq.append(("L", r.choice(NAMES)))
                else:
                    sq.append(("T",))
            seqs.append(sq)
        return seqs

    seqs = mk_sequences()
    # reference digests by absolute path, from separate processes
    ref = {}

    def ref_digest(path):
        path = os.path.normpath(path)
        if path not in ref:
            p, lines = _probe_lines(exe, [path], base_env, timeout=60)
            ref[path] = next((f[5] for f in lines if f[0] == "L" and f[2] == "1"), None)
        return ref[path]
    p, lines = _probe_lines(exe, ["UTC"], base_env, timeout=60)
    utc_dig = next(f[5] for f in lines if f[0] == "L")

    def run_one(iq):
        i, sq = iq
        fn = os.path.join(root, "seq-%04d.txt" % i)
        with open(fn, "w") as f:
            for st in sq:
                f.write(" ".join([st[0]] + [hexs(x) for x in st[1:]]) + "\n")
        return i, sq, fn, _probe_lines(exe, ["--seq", fn], base_env, timeout=120)

    steps = env_changes = loads_after_change = cached_repeats = local_calls = 0
    with ThreadPoolExecutor(max_workers=core.ncpu()) as ex:
        results = list(ex.map(run_one, list(enumerate(seqs))))
    for i, sq, fn, (p, lines) in results:
        if p.returncode != 0:
            errfile = fn + ".err"
            with open(errfile, "w") as f:
                f.write(p.stderr)
            key, text = core.crash_key("exit%d" % p.returncode, errfile, "class=env-sequence")
            chk.violation(key, "sequence %s\n%s" % (sq, text[:2000]), files=[errfile, fn])
            continue
        env = {}
        cache = {}
        changed = False
        out = [f for f in lines if f and f[0] in ("L", "T")]
        oi = 0
        hist = []

        def cached_load(name):
            nonlocal cached_repeats, loads_after_change
            if name in cache:
                cached_repeats += 1
                return cache[name] + ("cached",)
            if changed:
                loads_after_change += 1
            res = model_load(name, env)
            cache[name] = res
            return res + ("first",)
        for st in sq:
            hist.append(st)
            if st[0] == "E":
                env[st[1]] = st[2]
                changed = True
                env_changes += 1
                continue
            if st[0] == "U":
                env.pop(st[1], None)
                changed = True
                env_changes += 1
                continue
            steps += 1
            if oi >= len(out):
                chk.violation("probe-output-missing", "sequence %d step %s" % (i, st), files=[fn])
                break
            f = out[oi]
            oi += 1
            if st[0] == "L":
                exp_ok, exp_name, path, how = cached_load(st[1])
                ok, rname, is_utc, dig = f[2] == "1", unhex(f[3]), f[4] == "1", f[5]
                what = "load"
            else:
                local_calls += 1
                zone, _ = model_local(env)
                exp_ok, exp_name, path, how = cached_load(zone)
                ok, rname, is_utc, dig = exp_ok, unhex(f[1]), f[2] == "1", f[3]  # local_time_zone() reports no success flag
                what = "local"
            if exp_ok is None:
                continue
            bad = None
            if ok != exp_ok:
                bad = "%s-%s-but-model-%s" % (what, "succeeded" if ok else "failed", "succeeds" if exp_ok else "fails")
            elif not exp_ok and (not is_utc or dig != utc_dig):
                bad = "%s-failed-not-utc" % what if what == "load" else "local-fallback-not-utc"
            elif exp_ok and exp_name != "UTC" and rname != exp_name:
                bad = "%s-wrong-name" % what
            elif exp_ok and path is not None and ref_digest(path) != dig:
                bad = "%s-resolved-to-different-data" % what
            if bad:
                chk.violation("env-history:%s:%s" % (bad, how), "sequence %d: %s\n  at step %s the model (%s resolution, environment %r) expects ok=%s name=%r path=%r; got ok=%s name=%r utc=%s" %
                              (i, hist, st, how, env, exp_ok, exp_name, path, ok, rname, is_utc), files=[fn])
                break
    cov["env_sequences"] = len(seqs)
    cov["env_sequence_steps_checked"] = steps
    cov["env_sequence_env_changes"] = env_changes
    cov["env_sequence_first_loads_after_a_change"] = loads_after_change
    cov["env_sequence_repeat_loads"] = cached_repeats
    cov["env_sequence_local_calls"] = local_calls
    return steps
