"""Verdict plumbing shared by all checks: result parsing, sanitizer-log reduction, known-findings
matching, evidence and replay files, exit codes (0 held / 1 violation / 2 inconclusive)."""
import fnmatch
import glob
import json
import os
import re
import shutil
import subprocess
import sys
import time

VERIF = os.path.dirname(os.path.dirname(os.path.abspath(__file__)))
# /verif/evidence holds what the checks observed on /repo itself. Runs against another tree (VERIF_REPO: scratch
# worktrees used for seeded or semantics-preserving changes) or with VERIF_EVIDENCE_DIR set (tools/seeded.py, which
# patches /repo temporarily) write their evidence elsewhere.
EVIDENCE = os.environ.get("VERIF_EVIDENCE_DIR") or (
    os.path.join(VERIF, ".build", "evidence-scratch") if os.environ.get("VERIF_REPO") else os.path.join(VERIF, "evidence"))
REPLAYS = os.path.join(VERIF, "replays")
KNOWN = os.path.join(VERIF, "known_findings.txt")
WORK = os.path.join(VERIF, ".build", "work")


def unesc(s):
    return re.sub(r"\\x([0-9a-f]{2})", lambda m: chr(int(m.group(1), 16)), s)


class Results:
    def __init__(self):
        self.stats = {}
        self.viols = []    # (prop, key, detail)
        self.crashes = []  # (case, how, errfile, desc)
        self.hangs = []    # (case, secs, desc)
        self.samples = {}  # prop -> [text]
        self.notes = []
        self.dist = {}     # name -> set

    def stat(self, k, d=0):
        return self.stats.get(k, d)

    def add_dir(self, d):
        for p in sorted(glob.glob(os.path.join(d, "*.res"))):
            with open(p, errors="replace") as f:
                for line in f:
                    self.add_line(line.rstrip("\n"))

    def add_line(self, line):
        parts = line.split("\t")
        k = parts[0]
        if k == "STAT" and len(parts) >= 3:
            try:
                self.stats[parts[1]] = self.stats.get(parts[1], 0) + int(parts[2])
            except ValueError:
                pass
        elif k == "VIOL" and len(parts) >= 4:
            self.viols.append((parts[1], unesc(parts[2]), unesc(parts[3])))
        elif k == "CRASH" and len(parts) >= 5:
            self.crashes.append((int(parts[1]), parts[2], parts[3], unesc(parts[4])))
        elif k == "HANG" and len(parts) >= 4:
            self.hangs.append((int(parts[1]), parts[2], unesc(parts[3])))
        elif k == "SAMPLE" and len(parts) >= 3:
            self.samples.setdefault(parts[1], []).append(unesc(parts[2]))
        elif k == "NOTE":
            self.notes.append(unesc("\t".join(parts[1:])))
        elif k == "DIST" and len(parts) >= 3:
            self.dist.setdefault(parts[1], set()).add(parts[2])


SAN_PATTERNS = [
    (re.compile(r"([\w./-]+):(\d+):\d+: runtime error: (.*)"), "ubsan"),
    (re.compile(r"ERROR: AddressSanitizer: ([\w-]+)"), "asan"),
    (re.compile(r"WARNING: ThreadSanitizer: ([\w -]+)"), "tsan"),
    (re.compile(r"([\w./-]+):(\d+): .*Assertion `(.*)' failed"), "assert"),
    (re.compile(r"ERROR: libFuzzer: ([\w-]+)"), "libfuzzer"),
]


def _ubsan_kind(msg):
    msg = msg.lower()
    for k in ("signed integer overflow", "unsigned integer overflow", "division by zero", "shift exponent",
              "left shift", "load of value", "index", "null pointer", "misaligned", "negation of",
              "not a valid value", "outside the range of representable values", "member call", "downcast"):
        if k in msg:
            return k.replace(" ", "-")
    return "other"


def _repo_root():
    from . import build
    return build.REPO.rstrip("/") + "/"


def _first_repo_frame(text):
    """function name of the first stack frame located in the repository (stable across line edits)."""
    for m in re.finditer(r"#\d+ 0x[0-9a-f]+ in (.+?) (/\S+?):(\d+)", text):
        fn, path = m.group(1), m.group(2)
        if "/repo/" in path or path.startswith("/repo") or path.startswith(_repo_root()):
            base = re.sub(r"\(.*", "", fn).strip()
            return base.split("::")[-1] if base else os.path.basename(path)
    return None


def crash_key(how, errfile, desc):
    """Reduce a crash to 'crash:<tool>:<what>:<site>:<input class>'."""
    text = ""
    try:
        with open(errfile, errors="replace") as f:
            text = f.read(200000)
    except OSError:
        pass
    tool, what, site = "abort", how, "unknown"
    for rx, t in SAN_PATTERNS:
        m = rx.search(text)
        if not m:
            continue
        tool = t
        if t == "ubsan":
            what = _ubsan_kind(m.group(3))
            site = os.path.basename(m.group(1))
            if "/verif/" in m.group(1) or m.group(1).startswith("harness/"):
                tool = "harness-bug"
        elif t == "assert":
            what = "assertion"
            site = os.path.basename(m.group(1))
        else:
            what = m.group(1).strip().replace(" ", "-")
        break
    fn = _first_repo_frame(text)
    if fn:
        site = (site + "/" + fn) if site != "unknown" else fn
    return "crash:%s:%s:%s:%s" % (tool, what, site, input_class(desc)), text


def input_class(desc):
    m = re.search(r"\bclass=(\S+)", desc)
    if m:
        return m.group(1)
    m = re.search(r"\bzone=([^/\s]+)/", desc)
    if m:
        return m.group(1)
    return "-"


class Known:
    def __init__(self, path=KNOWN):
        self.findings = []  # (prop, glob, text)
        self.fixed = []
        try:
            with open(path) as f:
                for line in f:
                    line = line.strip()
                    if not line or line.startswith("#"):
                        continue
                    m = re.match(r"finding:\s+property=(\S+)\s+key=(\S+)\s+(.*)", line)
                    if m:
                        self.findings.append((m.group(1), m.group(2), m.group(3)))
                        continue
                    if line.startswith("fixed:"):
                        self.fixed.append(line)
        except OSError:
            pass

    def match(self, prop, key):
        for p, g, text in self.findings:
            if p == prop and fnmatch.fnmatchcase(key, g):
                return (p, g, text)
        return None


class Check:
    """One run of one property's check."""

    def __init__(self, prop, tier, seed, replay=None):
        self.prop = prop
        self.tier = tier
        self.seed = seed
        self.replay = replay
        self.t0 = time.time()
        self.known = Known()
        self.violations = []      # (key, detail, extra files)
        self.known_hits = {}      # glob -> (text, count)
        self.inconclusive = []    # reasons
        self.coverage = {}
        self.assumptions = []
        self.level = "exploration"
        self.workdir = os.path.join(WORK, "%s-%s-%d-%d" % (prop, tier, seed, os.getpid()))
        shutil.rmtree(self.workdir, ignore_errors=True)
        os.makedirs(self.workdir)
        # work directories of failed runs are kept for diagnosis, but not for ever (disk space)
        try:
            now = time.time()
            for e in os.listdir(WORK):
                pth = os.path.join(WORK, e)
                if pth != self.workdir and now - os.path.getmtime(pth) > 2 * 3600:
                    shutil.rmtree(pth, ignore_errors=True)
        except OSError:
            pass

    # -- recording
    def violation(self, key, detail, files=(), replay_args=None):
        hit = self.known.match(self.prop, key)
        if hit:
            g = hit[1]
            text, n = self.known_hits.get(g, (hit[2], 0))
            self.known_hits[g] = (text, n + 1)
            return False
        self.violations.append((key, detail, list(files), replay_args or {}))
        return True

    def inconclusive_because(self, why):
        self.inconclusive.append(why)

    def absorb(self, res, props=None, replay_args=None):
        """Route every VIOL/CRASH/HANG of a Results through the known-findings matcher."""
        props = props or [self.prop]
        for (p, key, detail) in res.viols:
            if p in props:
                self.violation(key, detail, replay_args=replay_args)
        for (case, how, errfile, desc) in res.crashes:
            key, text = crash_key(how, errfile, desc)
            if key.startswith("crash:harness-bug:") or how in ("exit97", "exit98"):
                self.inconclusive_because("harness failure in case %d: %s %s" % (case, key, text[:300]))
                continue
            ra = dict(replay_args or {})
            ra["case"] = case
            self.violation(key, "case=%d %s (%s)\n%s" % (case, desc, how, text[:3000]), files=[errfile], replay_args=ra)
        # a hang is re-run once by the caller; what is passed here already survived that
        for (case, secs, desc) in res.hangs:
            ra = dict(replay_args or {})
            ra["case"] = case
            self.violation("hang:%s" % input_class(desc), "case=%d no return within %ss: %s" % (case, secs, desc), replay_args=ra)
        if res.stat("harness_errors"):
            self.inconclusive_because("harness errors: %d (%s)" % (res.stat("harness_errors"), "; ".join(res.notes[:3])))
        if res.stat("abandoned_workers"):
            self.inconclusive_because("a worker slice was abandoned after repeated crashes")

    # -- finishing
    def finish(self):
        wall = time.time() - self.t0
        os.makedirs(EVIDENCE, exist_ok=True)
        cov = dict(self.coverage)
        cov.setdefault("evaluations", 0)
        cov.setdefault("distinct_nontrivial", 0)
        cov.setdefault("rule", "")
        cov.setdefault("samples", [])
        cov["known_findings_observed"] = {g: n for g, (t, n) in self.known_hits.items()}
        if self.inconclusive:
            cov["inconclusive"] = self.inconclusive
        ev = dict(property_id=self.prop, tier=self.tier, seed=self.seed, level=self.level, coverage=cov,
                  assumptions=self.assumptions, wall_s=round(wall, 2), violations=len(self.violations))
        if self.replay is None:
            tmp = os.path.join(EVIDENCE, ".%s.json.tmp%d" % (self.prop, os.getpid()))
            with open(tmp, "w") as f:
                json.dump(ev, f, indent=1, sort_keys=True)
                f.write("\n")
            os.replace(tmp, os.path.join(EVIDENCE, self.prop + ".json"))
        for g, (text, n) in sorted(self.known_hits.items()):
            print("KNOWN-FINDING: property=%s %s [key=%s, %d occurrences this run]" % (self.prop, text, g, n))
        code = 0
        if self.violations:
            code = 1
            seen = set()
            d = os.path.join(REPLAYS, self.prop)
            os.makedirs(d, exist_ok=True)
            for i, (key, detail, files, ra) in enumerate(self.violations):
                if key in seen:
                    continue
                seen.add(key)
                if len(seen) > 20:
                    break
                safe = re.sub(r"[^A-Za-z0-9_.-]+", "_", key)[:100]
                path = os.path.join(d, "%s-seed%d-%s.json" % (self.tier, self.seed, safe))
                rec = dict(property=self.prop, tier=self.tier, seed=self.seed, key=key, detail=detail, replay_args=ra)
                for fpath in files:
                    try:
                        dst = path + "." + os.path.basename(fpath)
                        shutil.copy(fpath, dst)
                        rec.setdefault("attachments", []).append(dst)
                    except OSError:
                        pass
                with open(path, "w") as f:
                    json.dump(rec, f, indent=1)
                print("VIOLATION property=%s replay=%s" % (self.prop, path))
                print("  key=%s" % key)
                print("  " + detail[:600].replace("\n", "\n  "))
        elif self.inconclusive:
            code = 2
            for why in self.inconclusive:
                print("INCONCLUSIVE property=%s %s" % (self.prop, why))
        print("%s %s tier=%s seed=%d evaluations=%s distinct_nontrivial=%s known_findings=%d wall=%.1fs -> exit %d" % (
            "check", self.prop, self.tier, self.seed, cov.get("evaluations"), cov.get("distinct_nontrivial"),
            len(self.known_hits), wall, code))
        if code == 0 or os.environ.get("VERIF_KEEP_WORK") is None:
            if code == 0:
                shutil.rmtree(self.workdir, ignore_errors=True)
        return code


def run_monitor(exe, args, env, outdir, timeout):
    """Run a supervisor binary; returns (Results, rc). A timeout of the whole run is inconclusive."""
    os.makedirs(outdir, exist_ok=True)
    cmd = [exe] + args + ["--out", outdir]
    try:
        p = subprocess.run(cmd, env=env, stdout=subprocess.PIPE, stderr=subprocess.PIPE, timeout=timeout, text=True, errors="replace")
        rc = p.returncode
        tail = (p.stderr or "")[-2000:]
    except subprocess.TimeoutExpired:
        rc = -999
        tail = "timeout after %ss" % timeout
    res = Results()
    res.add_dir(outdir)
    if rc != 0:
        res.stats["harness_errors"] = res.stats.get("harness_errors", 0) + 1
        res.notes.append("monitor exited rc=%s: %s" % (rc, tail))
    return res, rc


def ncpu():
    try:
        return max(1, min(16, len(os.sched_getaffinity(0))))
    except AttributeError:
        return 8
