"""Build cache: cctz from /repo's working tree + harness binaries, one directory per
(flavour, source hash). Protected by flock so checks may run concurrently."""
import fcntl
import hashlib
import os
import shutil
import subprocess
import sys
import time
from concurrent.futures import ThreadPoolExecutor

VERIF = os.path.dirname(os.path.dirname(os.path.abspath(__file__)))
REPO = os.environ.get("VERIF_REPO") or os.environ.get("VP_RUN_REPO") or "/repo"
BUILD = os.path.join(VERIF, ".build")
HARNESS = os.path.join(VERIF, "harness")
GUARD = "GOOGLE_CCTZ_VERIF"

CCTZ_SRCS = [
    "civil_time_detail.cc", "time_zone_fixed.cc", "time_zone_format.cc", "time_zone_if.cc",
    "time_zone_impl.cc", "time_zone_info.cc", "time_zone_libc.cc", "time_zone_lookup.cc",
    "time_zone_posix.cc", "zone_info_source.cc",
]

COMMON = ["-std=c++17", "-g", "-fno-omit-frame-pointer", "-D" + GUARD, "-pthread"]
FLAVOURS = {
    # default for functional monitors: asserts live, sanitizer reports fatal
    "asan": dict(cxx="g++", flags=["-O1", "-fsanitize=address,undefined", "-fno-sanitize-recover=all"]),
    "ubsan-rec": dict(cxx="g++", flags=["-O1", "-fsanitize=undefined"]),
    "tsan": dict(cxx="g++", flags=["-O1", "-fsanitize=thread"]),
    "pat": dict(cxx="g++", flags=["-O1", "-ftrivial-auto-var-init=pattern"]),
    "zero": dict(cxx="g++", flags=["-O1", "-ftrivial-auto-var-init=zero"]),
    "plain": dict(cxx="g++", flags=["-O1"]),
    "fast": dict(cxx="g++", flags=["-O2"]),
    "fuzz": dict(cxx="clang++", flags=["-O1", "-fsanitize=fuzzer-no-link,address,undefined",
                                        "-fno-sanitize=object-size", "-fno-sanitize-recover=all"],
                 link=["-fsanitize=fuzzer,address,undefined"]),
}


class BuildError(Exception):
    pass


def _hash_files(paths, extra=""):
    h = hashlib.sha256()
    h.update(extra.encode())
    for p in sorted(paths):
        h.update(p.encode())
        try:
            with open(p, "rb") as f:
                h.update(f.read())
        except OSError:
            h.update(b"<missing>")
    return h.hexdigest()[:16]


def repo_sources():
    out = []
    for d in ("src", "include/cctz"):
        full = os.path.join(REPO, d)
        for fn in sorted(os.listdir(full)):
            if fn.endswith((".cc", ".h")) and not fn.endswith(("_test.cc", "_benchmark.cc")) and fn != "time_tool.cc":
                out.append(os.path.join(full, fn))
    return out


def repo_hash():
    return _hash_files(repo_sources())


def harness_files():
    return [os.path.join(HARNESS, f) for f in sorted(os.listdir(HARNESS)) if f.endswith((".h", ".cc"))]


class _Lock:
    def __init__(self, name):
        os.makedirs(BUILD, exist_ok=True)
        self.path = os.path.join(BUILD, name + ".lock")

    def __enter__(self):
        self.f = open(self.path, "w")
        fcntl.flock(self.f, fcntl.LOCK_EX)
        return self

    def __exit__(self, *a):
        fcntl.flock(self.f, fcntl.LOCK_UN)
        self.f.close()


def _run(cmd, what):
    r = subprocess.run(cmd, stdout=subprocess.PIPE, stderr=subprocess.STDOUT, text=True)
    if r.returncode != 0:
        raise BuildError("%s failed:\n%s\n%s" % (what, " ".join(cmd), r.stdout[-4000:]))
    return r.stdout


def _gc(parent, keep_prefix, keep=3):
    """Remove old cache dirs of one flavour, keeping the most recent few."""
    try:
        ents = [e for e in os.listdir(parent) if e.startswith(keep_prefix + "-")]
    except OSError:
        return
    ents.sort(key=lambda e: os.path.getmtime(os.path.join(parent, e)), reverse=True)
    now = time.time()
    for e in ents[keep:]:
        # never remove what a concurrent check (on another source tree) may be about to run
        try:
            if now - os.path.getmtime(os.path.join(parent, e)) < 3600:
                continue
        except OSError:
            continue
        shutil.rmtree(os.path.join(parent, e), ignore_errors=True)


def build_lib(flavour, extra_defs=()):
    """Compile the cctz library of /repo's working tree for a flavour; returns dir with libcctz.a."""
    fl = FLAVOURS[flavour]
    rh = repo_hash()
    key = _hash_files([], rh + " ".join(fl["flags"]) + " ".join(extra_defs) + " ".join(COMMON))
    parent = os.path.join(BUILD, "lib")
    d = os.path.join(parent, "%s-%s" % (flavour, key))
    lib = os.path.join(d, "libcctz.a")
    with _Lock("lib-" + flavour):
        if os.path.exists(lib):
            os.utime(d)
            return d
        tmp = d + ".tmp%d" % os.getpid()
        shutil.rmtree(tmp, ignore_errors=True)
        os.makedirs(tmp)
        jobs = []
        for s in CCTZ_SRCS:
            o = os.path.join(tmp, s.replace(".cc", ".o"))
            cmd = [fl["cxx"]] + COMMON + fl["flags"] + list(extra_defs) + [
                "-I" + os.path.join(REPO, "include"), "-I" + os.path.join(REPO, "src"),
                "-c", os.path.join(REPO, "src", s), "-o", o]
            jobs.append((cmd, s, o))
        with ThreadPoolExecutor(max_workers=10) as ex:
            list(ex.map(lambda j: _run(j[0], "compile " + j[1]), jobs))
        _run(["ar", "rcs", os.path.join(tmp, "libcctz.a")] + [j[2] for j in jobs], "ar")
        for j in jobs:
            os.unlink(j[2])
        shutil.rmtree(d, ignore_errors=True)
        os.rename(tmp, d)
        _gc(parent, flavour)
    return d


def build_bin(flavour, name, sources=None, extra_flags=(), libs=()):
    """Compile harness/<name>.cc (or the given sources) against the flavour's cctz; returns the binary path."""
    fl = FLAVOURS[flavour]
    libdir = build_lib(flavour)
    srcs = [os.path.join(HARNESS, s) for s in (sources or [name + ".cc"])]
    key = _hash_files(harness_files(), os.path.basename(libdir) + name + " ".join(extra_flags) + " ".join(libs))
    parent = os.path.join(BUILD, "bin")
    d = os.path.join(parent, "%s-%s-%s" % (flavour, name, key))
    exe = os.path.join(d, name)
    with _Lock("bin-%s-%s" % (flavour, name)):
        if os.path.exists(exe):
            os.utime(d)
            return exe
        tmp = d + ".tmp%d" % os.getpid()
        shutil.rmtree(tmp, ignore_errors=True)
        os.makedirs(tmp)
        link = fl.get("link", fl["flags"]) if name.startswith("fuzz_") else fl["flags"]
        cmd = [fl["cxx"]] + COMMON + fl["flags"] + list(extra_flags) + [
            "-I" + os.path.join(REPO, "include"), "-I" + os.path.join(REPO, "src"), "-I" + HARNESS,
        ] + srcs + [os.path.join(libdir, "libcctz.a")] + list(libs) + ["-o", os.path.join(tmp, name)]
        if name.startswith("fuzz_"):
            cmd += link
        _run(cmd, "build " + name)
        shutil.rmtree(d, ignore_errors=True)
        os.rename(tmp, d)
        _gc(parent, "%s-%s" % (flavour, name), keep=2)
    return exe


def san_env(flavour, log_path=None):
    env = dict(os.environ)
    env["ASAN_OPTIONS"] = "abort_on_error=1:detect_leaks=0:allocator_may_return_null=1:handle_abort=1"
    env["UBSAN_OPTIONS"] = "print_stacktrace=1:halt_on_error=1"
    if flavour == "ubsan-rec":
        env["UBSAN_OPTIONS"] = "print_stacktrace=1:halt_on_error=0" + (":log_path=" + log_path if log_path else "")
    if flavour == "tsan":
        env["TSAN_OPTIONS"] = "halt_on_error=0:second_deadlock_stack=1" + (":log_path=" + log_path if log_path else "")
    env["TZ"] = "UTC"
    env["LC_ALL"] = "C"
    return env


if __name__ == "__main__":
    t = time.time()
    for fl in sys.argv[1:] or ["asan"]:
        print(fl, build_lib(fl), "%.1fs" % (time.time() - t))
